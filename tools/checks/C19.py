"""C19 - Parsing is total; printing an AST and re-parsing it is the identity.

Model: spec/lang/Syntax.tla
  structural layer  ASTs of the constructs whose printing needs care, Print (minimal parentheses) and Parse as a
                    state machine (token cursor, operand stack, marker stack) with the standard's restrictions;
                    TLC checks Parse(Print(a)) = a, minimality of every inserted pair, rejection of illegal mixes
                    (MCSyntax*.tla).
  lexical layer     spec/lang/SyntaxLex.tla: literal classes and their re-lexing rules.
Binding (A), harness/crates/hparse (boa_parser + boa_ast + boa_interner only):
  S1  for every case emitted by TLC (token sequence, model outcome): boa accepts exactly the accepted ones and its
      AST (Parenthesized nodes made transparent) equals the model's AST - binds boa's parser to the model parser;
  S2  boa's printed text of its own AST, tokenised here, parsed UNDER THE MODEL PARSER (TLC, SyntaxRun.tla), gives
      the same AST - binds boa's printer (parenthesisation, token adjacency) to the model;
  S3  parse -> print -> parse -> print is a fixed point with equal ASTs and no new interned strings;
  S4  original and printed text evaluate to the same trace (hjs).
  L*  the lexical cases of SyntaxLex.tla rendered to source: S3/S4 on them plus the value of every literal.
  C*  round trip + trace on the JS embedded in the repo's tests and the rendered C01 corpus.
  T*  totality on seeded token-level mutants: Ok or an error positioned inside the text; no panic/abort/hang; the
      parser interns only strings that occur in the text.
"""
import json, os, random, re, sys
import vlib

SPECDIR = os.environ.get("C19_SPECDIR") or os.path.join(vlib.SPEC, "lang")   # override: binding demonstrations only
WORKDIR = os.path.join(vlib.WORK, "c19")

# ------------------------------------------------------------------------------------------------ tokens <-> text

WRAP_PRE = "async function* w() { "
WRAP_POST = " }"
PUNCT = [">>>=", "...", "===", "!==", "**=", "<<=", ">>=", ">>>", "&&=", "||=", "??=", "=>", "==", "!=", "<=", ">=",
         "&&", "||", "??", "?.", "++", "--", "+=", "-=", "*=", "/=", "%=", "&=", "|=", "^=", "<<", ">>", "**",
         "{", "}", "(", ")", "[", "]", ";", ",", "<", ">", "+", "-", "*", "/", "%", "&", "|", "^", "!", "~", "?", ":", "=", ".",
         "#", "@"]
ID_START = re.compile(r"[A-Za-z_$\u0080-\uffff\\]")
ID_PART = re.compile(r"[A-Za-z0-9_$\u0080-\uffff\u200c\u200d]")
REGEX_OK_AFTER_WORD = {"return", "typeof", "instanceof", "in", "of", "new", "delete", "void", "throw", "case", "do", "else",
                       "yield", "await"}


def render_tokens(toks):
    return " ".join(toks)


def wrap(text):
    return WRAP_PRE + text + WRAP_POST


class LexError(Exception):
    pass


def lex_js(src, structural=False):
    """A plain ECMAScript tokeniser: list of (class, text) with class in id, num, str, tpl, regex, punct.
    Regex vs. division is decided from the previous token.  Comments and white space are dropped; a line
    terminator is recorded as class 'nl' only if structural is False (used by the mutant generator)."""
    out = []
    i, n = 0, len(src)

    def prev_allows_regex():
        for c, t in reversed(out):
            if c == "nl":
                continue
            if c == "punct":
                return t not in (")", "]", "}", "++", "--")
            if c == "id":
                return t in REGEX_OK_AFTER_WORD
            return False
        return True

    while i < n:
        c = src[i]
        if c in " \t\v\f\u00a0\ufeff":
            i += 1
        elif c in "\n\r\u2028\u2029":
            if not structural:
                out.append(("nl", c))
            i += 1
        elif src.startswith("//", i):
            while i < n and src[i] not in "\n\r\u2028\u2029":
                i += 1
        elif src.startswith("/*", i):
            j = src.find("*/", i + 2)
            if j < 0:
                raise LexError("unterminated comment")
            i = j + 2
        elif c in "\"'":
            j = i + 1
            while True:
                if j >= n or src[j] in "\n\r":
                    raise LexError("unterminated string")
                if src[j] == "\\":
                    j += 2
                    continue
                if src[j] == c:
                    break
                j += 1
            out.append(("str", src[i:j + 1]))
            i = j + 1
        elif c == "`":
            # whole template including substitutions (nested braces / templates counted)
            j = i + 1
            depth = 0
            while True:
                if j >= n:
                    raise LexError("unterminated template")
                if src[j] == "\\":
                    j += 2
                    continue
                if depth == 0 and src[j] == "`":
                    break
                if src.startswith("${", j):
                    depth += 1
                    j += 2
                    continue
                if depth > 0 and src[j] == "{":
                    depth += 1
                elif depth > 0 and src[j] == "}":
                    depth -= 1
                j += 1
            out.append(("tpl", src[i:j + 1]))
            i = j + 1
        elif c.isdigit() or (c == "." and i + 1 < n and src[i + 1].isdigit()):
            m = re.compile(r"0[xX][0-9a-fA-F_]+n?|0[oO][0-7_]+n?|0[bB][01_]+n?|(?:\d[\d_]*\.?[\d_]*|\.\d[\d_]*)(?:[eE][+-]?\d[\d_]*)?n?").match(src, i)
            out.append(("num", m.group(0)))
            i = m.end()
        elif ID_START.match(c):
            j = i
            while j < n and (ID_PART.match(src[j]) or src[j] == "\\"):
                if src[j] == "\\":
                    m = re.compile(r"\\u(?:[0-9a-fA-F]{4}|\{[0-9a-fA-F]+\})").match(src, j)
                    if not m:
                        raise LexError("bad identifier escape")
                    j = m.end()
                else:
                    j += 1
            out.append(("id", src[i:j]))
            i = j
        elif c == "/" and prev_allows_regex():
            j = i + 1
            in_class = False
            while True:
                if j >= n or src[j] in "\n\r":
                    raise LexError("unterminated regex")
                if src[j] == "\\":
                    j += 2
                    continue
                if src[j] == "[":
                    in_class = True
                elif src[j] == "]":
                    in_class = False
                elif src[j] == "/" and not in_class:
                    break
                j += 1
            j += 1
            while j < n and ID_PART.match(src[j]):
                j += 1
            out.append(("regex", src[i:j]))
            i = j
        else:
            for p in PUNCT:
                if src.startswith(p, i):
                    out.append(("punct", p))
                    i += len(p)
                    break
            else:
                raise LexError("unexpected character %r" % c)
    return out


def structural_tokens(printed):
    """Token strings of a text printed by boa for a structural case, without the wrapper function."""
    toks = [t for _, t in lex_js(printed, structural=True)]
    pre = ["async", "function", "*", "w", "(", ")", "{"]
    if toks[:len(pre)] != pre or toks[-1] != "}":
        raise LexError("wrapper not found in " + printed[:80])
    return toks[len(pre):-1]


# ------------------------------------------------------------------------------------------------ boa tree -> model AST

class Unmodelled(Exception):
    pass


UPD = {"IncrementPre": ("++", True), "IncrementPost": ("++", False), "DecrementPre": ("--", True), "DecrementPost": ("--", False)}


def conv(t):
    """hparse structural dump of an expression -> AST record of Syntax.tla (Parenthesized is transparent)."""
    k = t[0]
    if k == "paren":
        return conv(t[1])
    if k == "id":
        return {"k": "id", "n": t[1]}
    if k == "obj" and t[1] == []:
        return {"k": "obj"}
    if k == "fn" and t[1] is None and t[2] == [] and t[3] == []:
        return {"k": "fn"}
    if k == "class" and t[1] is None and t[2] is None and t[3] == []:
        return {"k": "class"}
    if k == "bin":
        return {"k": "bin", "op": t[1], "l": conv(t[2]), "r": conv(t[3])}
    if k == "un":
        return {"k": "un", "op": t[1], "x": conv(t[2])}
    if k == "upd":
        op, pre = UPD[t[1]]
        return {"k": "upd", "op": op, "pre": pre, "x": conv(t[2])}
    if k == "asg":
        return {"k": "asg", "op": t[1], "l": conv(t[2]), "r": conv(t[3])}
    if k == "cond":
        return {"k": "cond", "c": conv(t[1]), "t": conv(t[2]), "f": conv(t[3])}
    if k == "arrow":
        if t[2] == [["var", ["id", "p"], None]] and len(t[3]) == 1 and t[3][0][0] == "return" and t[3][0][1] is not None:
            return {"k": "arrow", "as": t[1], "x": conv(t[3][0][1])}
        raise Unmodelled("arrow shape")
    if k == "new":
        return {"k": "new", "c": conv(t[1]), "args": [conv(x) for x in t[2]]}
    if k == "call":
        return {"k": "call", "f": conv(t[1]), "args": [conv(x) for x in t[2]]}
    if k == "mem":
        f = t[2]
        if f[0] == "dot":
            return {"k": "mem", "o": conv(t[1]), "n": f[1]}
        if f[0] == "idx":
            return {"k": "idx", "o": conv(t[1]), "i": conv(f[1])}
        raise Unmodelled("private member")
    if k == "opt":
        ch = []
        for s, op in t[2]:
            if op[0] == "dot":
                ch.append({"s": s, "k": "dot", "n": op[1]})
            elif op[0] == "idx":
                ch.append({"s": s, "k": "idx", "i": conv(op[1])})
            elif op[0] == "call":
                ch.append({"s": s, "k": "call", "args": [conv(x) for x in op[1]]})
            else:
                raise Unmodelled("optional private")
        return {"k": "opt", "t": conv(t[1]), "ch": ch}
    if k == "await":
        return {"k": "await", "x": conv(t[1])}
    if k == "yield":
        return {"k": "yield", "d": t[1], "x": {"k": "none"} if t[2] is None else conv(t[2])}
    raise Unmodelled(k)


def conv_stmt(s):
    k = s[0]
    if k == "expr":
        return {"k": "expr", "e": conv(s[1])}
    if k == "for" and s[2] is None and s[3] is None and s[4] == ["empty"] and s[1] is not None:
        init = s[1]
        if init[0] == "vardecl":
            if init[1] == "var" and len(init[2]) == 1 and init[2][0][1] == ["id", "x"] and init[2][0][2] is not None:
                return {"k": "forvar", "e": conv(init[2][0][2])}
            raise Unmodelled("for declaration")
        return {"k": "forinit", "e": conv(init)}
    if k == "forin" and s[3] == ["empty"]:
        return {"k": "forin", "l": conv(s[1]), "e": conv(s[2])}
    if k == "forof" and s[1] is False and s[4] == ["empty"]:
        return {"k": "forof", "l": conv(s[2]), "e": conv(s[3])}
    raise Unmodelled("statement " + k)


def unwrap_tree(tree):
    """The single statement inside `async function* w() { ... }`."""
    body = tree.get("body") or []
    if len(body) != 1 or body[0][0] != "fndecl" or body[0][1] != "asyncgen" or body[0][2] != "w":
        raise Unmodelled("wrapper")
    inner = body[0][4]
    if len(inner) != 1:
        raise Unmodelled("%d statements" % len(inner))
    return inner[0]


def strip_na(x):
    """`new a` and `new a()` are one AST in boa: forget the model's `na` flag."""
    if isinstance(x, dict):
        return {k: strip_na(v) for k, v in x.items() if k != "na"}
    if isinstance(x, list):
        return [strip_na(v) for v in x]
    return x


def structural_class(stmt):
    """Classes of structural cases with a confirmed printer defect (known findings are per class)."""
    if stmt["k"] == "forof" and stmt["l"]["k"] == "id" and stmt["l"]["n"] in ("let", "async"):
        return "for-of head `(%s)`: parentheses of the left-hand side dropped" % stmt["l"]["n"]
    return None


# ------------------------------------------------------------------------------------------------ structural phase

def run_structural(ck, tier, hparse):
    mod = {"quick": "MCSyntaxQuick", "thorough": "MCSyntaxThorough", "tiny": "MCSyntaxTiny"}[os.environ.get("C19_UNIVERSE") or tier]
    r = vlib.run_tlc(os.path.join(SPECDIR, mod + ".tla"), mod + ".cfg", workers=3, coverage=(tier == "thorough"), timeout=3000)
    vlib.tlc_must_pass(r, "Syntax/" + mod)
    ck.cov.setdefault("checker_cmd", r["cmd"])
    ncases = None
    cases = {}
    for tag, o in r["tagged"]:
        if tag == "CASE":
            cases[tuple(o["toks"])] = o
    m = re.search(r'<<"NCASES", (\d+)>>', r["raw_tail"])
    # one CASE per (statement, variant) and per listed token sequence; distinct token sequences are what is replayed
    if len(cases) < 50:
        raise vlib.ToolError("structural: TLC emitted %d cases" % len(cases))
    ck.add("states", r["distinct"])
    ck.add("transitions", r["states"])
    if tier == "thorough":
        check_coverage(r["raw_tail"], ["PrintAct", "Start", "ShiftOperand", "Reduce", "ShiftBinary", "ShiftCond", "ShiftAssign",
                                       "ShiftPostfix", "Close"])
    return structural_conformance(ck, cases, hparse)


def check_coverage(raw_tail, actions):
    for a in actions:
        m = re.search(r"<%s line \d+, col \d+ to line \d+, col \d+ of module \w+>: (\d+):(\d+)" % a, raw_tail)
        if m and int(m.group(2)) == 0:
            raise vlib.ToolError("coverage: action %s was never taken" % a)


def structural_conformance(ck, cases, hparse):
    keys = sorted(cases)
    scen = [{"id": i, "src": wrap(render_tokens(k)), "tree": True} for i, k in enumerate(keys)]
    res = vlib.run_lines(hparse, scen)
    reparse = {}      # token tuple of boa's print -> list of case indices expecting their AST
    nontrivial = 0
    stats = {"ok": 0, "reject": 0, "other": 0}
    for i, k in enumerate(keys):
        c = cases[k]
        out = res.get(i)
        text = scen[i]["src"]
        stats[c["st"]] += 1
        if out is None:
            raise vlib.ToolError("hparse: missing result")
        if bad_outcome(ck, out, "structural", text):
            continue
        accepted = "ok" in out["r1"]
        if c["st"] == "other":
            continue                                   # statement outside the fragment: no claim
        if c["st"] == "reject":
            # The property does not say which texts the parser must reject: an accepted illegal text is reported as
            # drift (the model parser is stricter), and the round trip must hold on it like on any accepted text.
            if accepted:
                ck.drift += 1
                ck.add("illegal_accepted")
                if ck.cov["illegal_accepted"] <= 3:
                    vlib.log("MODEL-DRIFT: the parser accepts a text the standard rejects: " + render_tokens(k))
                roundtrip_ok(ck, out, "structural", text)
            continue
        want = strip_na(c["res"])
        if "(" in k:
            nontrivial += 1
        if not accepted:
            ck.failure("structural reject-legal " + render_tokens(k), {"text": text, "model": want, "boa": out["r1"]})
            continue
        try:
            got = conv_stmt(unwrap_tree(out["tree"]))
        except Unmodelled as e:
            got = {"unmodelled": str(e)}
        if got != want:
            ck.failure("structural ast " + render_tokens(k), {"text": text, "model": want, "boa": got})
            continue
        cls = structural_class(want)
        if not roundtrip_ok(ck, out, "structural", text, sig=cls and ("structural roundtrip " + cls)):
            continue
        try:
            ptoks = tuple(structural_tokens(out["p1"]))
        except LexError as e:
            ck.failure("structural print-tokens " + render_tokens(k), {"text": text, "print": out["p1"], "error": str(e)})
            continue
        known = cases.get(ptoks)
        if known is not None:          # the model parser has already run on exactly these tokens
            if known["st"] != "ok" or strip_na(known["res"]) != want:
                ck.failure("structural print " + render_tokens(k), {"text": text, "print": out["p1"], "model_parse_of_print": known, "want": want})
        else:
            reparse.setdefault(ptoks, []).append((k, want))
        ck.add("evaluations")
    ck.cov["structural_cases"] = stats
    return cases, reparse, nontrivial


def model_reparse(ck, reparse):
    """S2: boa's printed token sequences that the first TLC run has not parsed are parsed by the model parser."""
    if not reparse:
        return 0
    os.makedirs(WORKDIR, exist_ok=True)
    keys = sorted(reparse)
    path = os.path.join(WORKDIR, "reparse-%d.ndjson" % os.getpid())
    with open(path, "w") as f:
        for i, k in enumerate(keys):
            f.write(json.dumps({"id": i, "toks": list(k)}) + "\n")
    r = vlib.run_tlc(os.path.join(SPECDIR, "SyntaxRun.tla"), "SyntaxRun.cfg", workers=3, env_extra={"C19_TOKS": path}, timeout=3000)
    vlib.tlc_must_pass(r, "SyntaxRun")
    os.unlink(path)
    got = {}
    for tag, o in r["tagged"]:
        if tag == "RUN":
            got[o["id"]] = o
    if len(got) != len(keys):
        raise vlib.ToolError("SyntaxRun: %d results for %d inputs" % (len(got), len(keys)))
    ck.add("states", r["distinct"])
    ck.add("transitions", r["states"])
    for i, k in enumerate(keys):
        o = got[i]
        for src_toks, want in reparse[k]:
            if o["st"] != "ok" or strip_na(o["res"]) != want:
                ck.failure("structural print " + render_tokens(src_toks),
                           {"text": wrap(render_tokens(src_toks)), "print_tokens": list(k), "model_parse_of_print": o, "want": want})
    return len(keys)


# ------------------------------------------------------------------------------------------------ generic outcome checks

def bad_outcome(ck, out, where, text):
    """Panic / abort / hang are observations no model allows."""
    for key in ("panic", "abort", "hang"):
        if key in out:
            what = str(out[key])
            what = re.sub(r"\s+", " ", what)[:160]
            ck.failure("%s %s %s" % (where, key, shrink_label(text)), {"text": text, key: out[key], "stage": out.get("stage")})
            return True
    return False


def shrink_label(text):
    return text if len(text) <= 120 else text[:117] + "..."


def roundtrip_ok(ck, out, where, text, sig=None):
    """S3 on one hparse result whose first parse succeeded. Returns True when the round trip is a fixed point."""
    sig = sig or (where + " roundtrip " + shrink_label(text))
    if out.get("noprint"):
        return True
    if "ok" not in out.get("r2", {}):
        ck.failure(sig, {"text": text, "what": "printed text does not parse", "print": out.get("p1"), "error": out.get("r2")})
        return False
    if not out.get("eq12"):
        ck.failure(sig, {"text": text, "what": "AST of the printed text differs from the AST of the source", "print": out.get("p1"), "diff": out.get("diff12")})
        return False
    if not out.get("p2same") or "ok" not in out.get("r3", {}) or not out.get("eq23") or not out.get("p3same"):
        ck.failure(sig, {"text": text, "what": "parse-print is not a fixed point from the first printed form on", "print": out.get("p1"), "print2": out.get("p2")})
        return False
    il = out["ilen"]
    if not (il[1] == il[2] == il[3]):
        ck.failure(sig, {"text": text, "what": "re-parsing the printed text interned new strings", "new2": out.get("new2"), "new3": out.get("new3")})
        return False
    return True


# ------------------------------------------------------------------------------------------------ entry

def run(tier, replay=None):
    ck = vlib.Check("C19", tier, "model_checking", replay)
    bindir = vlib.build_harness(["hparse", "hjs"])
    hparse = os.path.join(bindir, "hparse")
    cases, reparse, nontrivial = run_structural(ck, tier, hparse)
    n2 = model_reparse(ck, reparse)
    ck.cov["structural_reparsed_by_model"] = n2
    ck.cov["distinct_nontrivial"] = nontrivial
    return ck.finish()
