"""C11 - String behaviour depends only on the code-unit sequence.
Model: spec/text/JsString.tla (builder state machine; every reachable state is one code-unit sequence).
Binding (A): TLC emits, for every reachable sequence, the reference result of every operation; hstr
builds the sequence through every constructor of boa_string and compares."""
import json, os, random
import vlib

SPEC = os.path.join(vlib.SPEC, "text", "MCJsString.tla")


def run(tier, replay=None):
    ck = vlib.Check("C11", tier, "model_checking", replay)
    bindir = vlib.build_harness(["hstr"])
    cfgs = ["MCJsString_quick.cfg"] if tier == "quick" else ["MCJsString_thorough.cfg", "MCJsString_long.cfg"]
    recs = []
    states = trans = 0
    for cfg in cfgs:
        r = vlib.run_tlc(SPEC, cfg, workers=8, coverage=(tier == "thorough"))
        vlib.tlc_must_pass(r, "JsString/" + cfg)
        states += r["distinct"]; trans += r["states"]
        for tag, o in r["tagged"]:
            if tag == "REPLAY":
                o["id"] = len(recs)
                recs.append(o)
        ck.cov.setdefault("checker_cmd", r["cmd"])
    if len(recs) != states:
        raise vlib.ToolError(f"expected one REPLAY record per distinct state, got {len(recs)} for {states}")
    res = vlib.run_lines(os.path.join(bindir, "hstr"), recs)
    evals = 0
    nontrivial = 0
    for rec in recs:
        out = res.get(rec["id"])
        u = rec["un"]["u"]
        if out is None:
            raise vlib.ToolError("missing result")
        if "panic" in out or "abort" in out:
            ck.failure({"op": "PANIC", "u": u}, {"u": u, "panic": out.get("panic") or out.get("abort")})
            continue
        evals += out["evals"]
        # non-trivial: sequences whose representation can differ (non-ASCII or surrogates) or that exercise whitespace
        if any(c > 127 for c in u):
            nontrivial += 1
        for f in out["fails"]:
            ctor = f["ctor"].split("@")[0]
            ck.failure({"op": f["op"], "ctor": ctor}, f)
        if rec["id"] in (3, 40, 100):
            ck.sample({"u": u, "code_points": rec["un"]["cps"], "lossy": rec["un"]["lossy"], "trim": rec["un"]["trim"], "num": rec["un"]["num"]})
    ck.cov.update(states=states, transitions=trans, traces_validated_against_impl=len(recs), evaluations=evals,
                  distinct_nontrivial=nontrivial, exhaustive=True,
                  rule="one record per code-unit sequence reachable by the builder model (all sequences up to the bound over the alphabet), "
                       "each checked for every operation under every constructor pair; non-trivial = sequence contains a unit > 0x7F "
                       "(Latin-1-high, BMP, whitespace outside ASCII or surrogate) so that representations can differ")
    if nontrivial < 50:
        raise vlib.ToolError("vacuity guard: too few non-trivial sequences")
    ck.assumptions += ["ToNumber is modelled only for [+-]?digits spellings (others skipped)",
                       "Hash is compared between representations with std DefaultHasher (one process)"]
    return ck.finish()
