"""C17 - Module graphs evaluate each module once, in dependency order.

Model: spec/modules/Modules.tla (ECMA-262 16.2.1.5/16.2.1.6 as state and transitions; the model itself builds
every module graph by a depth-first builder, chooses body kinds, binding styles and the host script).
Binding (A): TLC checks the model's invariants on every state of every scenario and emits, per scenario, the
expected print trace (body order + live-binding reads), the promise states at four observation points, the
loader log and the final export values.  hmod renders the scenario as JS module sources behind a logging
in-memory ModuleLoader, drives parse -> load -> link -> evaluate -> run_jobs (twice), and the observations are
compared.  Failures are shrunk (re-root, delete modules / edges / attributes while the same class of failure
remains; expectations of the shrunk scenarios come from TLC again) to a canonical signature."""
import hashlib
import json
import multiprocessing
import os
import random
import time
import concurrent.futures

import vlib

SPEC = os.path.join(vlib.SPEC, "modules", "MCModules.tla")
W = os.path.join(vlib.WORK, "c17")
# two TLC runs at a time: 2 x 4 = 8 workers by default; C17_WORKERS lowers it on a shared machine
WORKERS = max(1, int(os.environ.get("C17_WORKERS", "4")))
PROCS = max(1, int(os.environ.get("C17_PROCS", "6")))

TIERS = {
    # (cfg, simulate, depth)
    "quick": [("MCModules_q2.cfg", None, None), ("MCModules_q3.cfg", None, None), ("MCModules_q4slow.cfg", None, None)],
    "thorough": [("MCModules_t4a.cfg", None, None), ("MCModules_t4b.cfg", None, None),
                 ("MCModules_t5sync.cfg", None, None), ("MCModules_t2.cfg", None, None),
                 ("MCModules_q2.cfg", None, None), ("MCModules_q3.cfg", None, None),
                 ("MCModules_t3.cfg", None, None), ("MCModules_t3b.cfg", None, None),
                 ("MCModules_t3any.cfg", None, None), ("MCModules_rand8.cfg", 3000, 400),
                 # liveness (every evaluation eventually settles) under weak fairness, small bound
                 ("MCModules_live.cfg", None, None)],
}
FLOOR = {"quick": 1500, "thorough": 20000}
ACTIONS = ["GenNew", "GenOld", "GenPop", "HostStep", "RunJob", "LinkStep", "LinkFinish", "EvalStep", "EvalBody",
           "EvalPop", "EvalAbrupt", "ExecNext"]


# ------------------------------------------------------------------ scenarios

def core(sc):
    s = sc["script"]
    return {"n": sc["n"], "req": sc["req"], "kind": sc["kind"], "bind": sc["bind"],
            "script": {"e1": s["e1"], "e2": s["e2"], "drain": bool(s["drain"])}}


def key(sc):
    return json.dumps(core(sc), sort_keys=True)


def reexports(sc, d):
    return sc["bind"][d - 1] in ("reexp", "nsreexp") and len(sc["req"][d - 1]) > 0


def render_module(sc, m):
    req = sc["req"][m - 1]
    kind = sc["kind"][m - 1]
    ns = sc["bind"][m - 1] in ("ns", "nsreexp")
    L = []
    for d in req:
        if ns:
            L.append(f'import * as n{d} from "m{d}";')
        else:
            names = [f"x as x{d}"] + ([f"y as y{d}"] if reexports(sc, d) else [])
            L.append(f'import {{ {", ".join(names)} }} from "m{d}";')
    if reexports(sc, m):
        L.append(f'export {{ x as y }} from "m{req[0]}";')
    L.append("export let x = 1;")
    L.append("function rd(f) { try { return f(); } catch (e) { return (e instanceof ReferenceError) ? 0 : -1; } }")

    def reads():
        o = []
        for d in req:
            if ns:
                o.append(f'print({m}, "rd", {d}, rd(() => n{d}.x));')
                if reexports(sc, d):
                    o.append(f'print({m}, "ry", {d}, rd(() => n{d}.y));')
                o.append(f'print({m}, "has", {d}, ("y" in n{d}) ? 1 : 0);')
            else:
                o.append(f'print({m}, "rd", {d}, rd(() => x{d}));')
                if reexports(sc, d):
                    o.append(f'print({m}, "ry", {d}, rd(() => y{d}));')
        return o

    L.append(f'print({m}, "run", 0, 0);')
    L += reads()
    L.append("x = 2;")
    if kind == "ap":
        L += [f'if (x === 2) throw "E{m}";', "await 0;"]
    if kind in ("a", "at", "aw"):
        L += ["await 0;"] * (3 if kind == "aw" else 1) + [f'print({m}, "resume", 0, 0);'] + reads() + ["x = 3;"]
    if kind in ("st", "at"):
        L.append(f'throw "E{m}";')
    return "\n".join(L) + "\n"


def render(sc, sid):
    s = sc["script"]
    mods = {f"m{m}": render_module(sc, m) for m in range(1, sc["n"] + 1)}
    st = [{"op": "load", "m": "m1", "p": "L1"}, {"op": "jobs"}, {"op": "link", "m": "m1"},
          {"op": "eval", "m": f"m{s['e1']}", "p": "p1"}, {"op": "state", "at": "eval1"}]
    if s["drain"]:
        st += [{"op": "jobs"}, {"op": "state", "at": "drain1"}, {"op": "load", "m": f"m{s['e2']}", "p": "L2"},
               {"op": "jobs"}, {"op": "link", "m": f"m{s['e2']}"}]
    st += [{"op": "eval", "m": f"m{s['e2']}", "p": "p2"}, {"op": "state", "at": "eval2"}, {"op": "jobs"},
           {"op": "state", "at": "drain2"}]
    st += [{"op": "get", "m": f"m{m}", "name": "x"} for m in range(1, sc["n"] + 1)]
    return {"id": sid, "modules": mods, "steps": st}


def ev_line(e):
    return f"n:{e['m']} s:{e['e']} n:{e['d']} n:{e['v']}"


def prom_str(p):
    if p["st"] == "pending":
        return "pending"
    if p["st"] == "fulfilled":
        return "fulfilled:u"
    return f"rejected:throw:s:E{p['why']}"


def compare(exp, steps, res):
    """exp: TLC's record; steps: rendered steps; res: hmod result.  Returns None or (class, detail)."""
    if res is None:
        return ("tool", "no result")
    if "panic" in res or "abort" in res:
        msg = str(res.get("panic") or res.get("abort"))
        msg = msg.replace("/repo/", "")
        head, _, loc = msg.partition(" @ ")
        loc = loc.rsplit(":", 1)[0] if ":" in loc else loc
        return ("panic:" + head[:120] + " @ " + loc, msg)
    out = []
    obs = {}
    gets = []
    for stp, r in zip(steps, res["steps"]):
        out += r["out"]
        op = stp["op"]
        if op in ("link", "eval", "jobs", "load") and r["r"] != "ok":
            return (f"host-error:{op}", r["r"])
        if op == "state":
            obs[stp["at"]] = (len(out), r["r"])
        if op == "get":
            gets.append(r["r"])
    eout = [ev_line(e) for e in exp["out"]]
    eobs = {o["at"]: o for o in exp["obs"]}
    last = eobs["drain2"]
    act_last = obs["drain2"][1]["states"]
    exp_last = {f"p{k + 1}": prom_str(p) for k, p in enumerate(last["ps"])}
    for lbl, want in exp_last.items():
        got = act_last.get(lbl)
        if got != want:
            cls = "unsettled" if got == "pending" else "outcome"
            return (cls, {"promise": lbl, "expected": want, "actual": got, "trace": out, "expected_trace": eout})
    if out != eout:
        body = lambda t: [x for x in t if " s:run " in x or " s:resume " in x]
        cls = "order" if body(out) != body(eout) else "binding"
        return (cls, {"expected_trace": eout, "trace": out})
    for at, o in eobs.items():
        ln, st = obs[at]
        want = {f"p{k + 1}": prom_str(p) for k, p in enumerate(o["ps"])}
        got = {k: v for k, v in st["states"].items() if k.startswith("p")}
        lds = [v for k, v in st["states"].items() if k.startswith("L")]
        if ln != o["len"] or want != got or any(v != "fulfilled:u" for v in lds):
            return ("timing", {"at": at, "expected": [o["len"], want], "actual": [ln, got, lds]})
    elog = sorted([f"m{a}", f"m{b}"] for a, b in exp["log"])
    if sorted(res["log"]) != elog:
        return ("loader", {"expected": elog, "actual": res["log"]})
    if sorted(res["parsed"]) != sorted(f"m{m}" for m in range(1, exp["n"] + 1)):
        return ("loader", {"parsed": res["parsed"]})
    want = ["throw:o:Error:ReferenceError" if v == 0 else f"value:n:{v}" for v in exp["val"]]
    if gets != want:
        return ("export", {"expected": want, "actual": gets})
    return None


def identity_drift(exp, steps, res):
    if "steps" not in res:
        return False
    for stp, r in zip(steps, res["steps"]):
        if stp["op"] == "state" and stp["at"] == "drain2":
            same = r["r"]["same"].get("p2") == "p1"
            return same != bool(exp["same"])
    return False


def nontrivial(sc):
    n = sc["n"]
    req = sc["req"]
    reach = {m: set() for m in range(1, n + 1)}
    for m in range(1, n + 1):
        todo = list(req[m - 1])
        while todo:
            d = todo.pop()
            if d not in reach[m]:
                reach[m].add(d)
                todo += req[d - 1]
    cyclic = any(m in reach[m] for m in reach)
    asyncm = any(k in ("a", "at", "ap", "aw") for k in sc["kind"])
    thrower_with_dep = any(sc["kind"][t - 1] in ("st", "at", "ap") and any(t in req[m - 1] for m in range(1, n + 1))
                           for t in range(1, n + 1))
    return cyclic or asyncm or thrower_with_dep


# ------------------------------------------------------------------ reductions (shrinking)

SIMPLER_KIND = {"s": [], "a": ["s"], "st": ["s"], "at": ["s", "a", "st"], "ap": ["s", "st", "a"], "aw": ["s", "a"]}
SIMPLER_BIND = {"named": [], "ns": ["named"], "reexp": ["named"], "nsreexp": ["named"]}


def renumber(n, req, kind, bind, script, root=1):
    """Canonical numbering = depth-first pre-order from root following request order; unreachable modules are
    dropped.  Returns a core scenario or None when e1/e2 got lost."""
    order = []
    seen = set()

    def dfs(m):
        seen.add(m)
        order.append(m)
        for d in req[m - 1]:
            if d not in seen:
                dfs(d)
    dfs(root)
    mp = {m: i + 1 for i, m in enumerate(order)}
    if script["e1"] not in mp or script["e2"] not in mp:
        return None
    return {"n": len(order), "req": [[mp[d] for d in req[m - 1]] for m in order], "kind": [kind[m - 1] for m in order],
            "bind": [bind[m - 1] for m in order],
            "script": {"e1": mp[script["e1"]], "e2": mp[script["e2"]], "drain": script["drain"]}}


KIND_RANK = {"s": 0, "a": 1, "st": 1, "at": 2, "ap": 2, "aw": 2}
BIND_RANK = {"named": 0, "ns": 1, "reexp": 1, "nsreexp": 2}


def measure(c):
    """Well-founded size of a scenario; a reduction must strictly decrease it (lexicographically)."""
    s = c["script"]
    return (c["n"], sum(len(r) for r in c["req"]), sum(KIND_RANK[k] for k in c["kind"]),
            sum(BIND_RANK[b] for b in c["bind"]), int(s["e1"] != 1) + int(s["e2"] != s["e1"]) + int(bool(s["drain"])))


def reductions(sc):
    c = core(sc)
    n, req, kind, bind, s = c["n"], c["req"], c["kind"], c["bind"], c["script"]
    out = []
    seen = {key(c)}
    m0 = measure(c)

    def add(x):
        if x is not None and measure(x) < m0:
            kx = key(x)
            if kx not in seen:
                seen.add(kx)
                out.append(x)
    for k in range(2, n + 1):                                  # re-root (the host uses module k as its entry)
        s2 = {"e1": k if s["e1"] == 1 else s["e1"], "e2": k if s["e2"] == 1 else s["e2"], "drain": s["drain"]}
        add(renumber(n, req, kind, bind, s2, root=k))
    for k in range(2, n + 1):                                  # delete a module
        r2 = [[d for d in req[m - 1] if d != k] if m != k else [] for m in range(1, n + 1)]
        add(renumber(n, r2, kind, bind, s))
    for m in range(1, n + 1):                                  # delete an edge
        for i in range(len(req[m - 1])):
            r2 = [list(x) for x in req]
            del r2[m - 1][i]
            add(renumber(n, r2, kind, bind, s))
    for m in range(1, n + 1):                                  # simpler body
        for k in SIMPLER_KIND[kind[m - 1]]:
            k2 = list(kind)
            k2[m - 1] = k
            add(renumber(n, req, k2, bind, s))
    for m in range(1, n + 1):                                  # simpler bindings
        for b in SIMPLER_BIND[bind[m - 1]]:
            b2 = list(bind)
            b2[m - 1] = b
            add(renumber(n, req, kind, b2, s))
    if s["e2"] != s["e1"]:                                     # simpler host script
        add(renumber(n, req, kind, bind, {"e1": s["e1"], "e2": s["e1"], "drain": s["drain"]}))
    if s["e1"] != 1:
        add(renumber(n, req, kind, bind, {"e1": 1, "e2": s["e2"], "drain": s["drain"]}))
        add(renumber(n, req, kind, bind, {"e1": 1, "e2": 1 if s["e2"] == s["e1"] else s["e2"], "drain": s["drain"]}))
    if s["drain"]:
        add(renumber(n, req, kind, bind, {"e1": s["e1"], "e2": s["e2"], "drain": False}))
    return out


# ------------------------------------------------------------------ evaluation of scenarios

def _run_chunk(args):
    binary, chunk = args
    return vlib.run_lines(binary, chunk)


class Evaluator:
    """Memo of model expectations (from TLC) and harness verdicts, keyed by canonical scenario."""

    def __init__(self, binary):
        self.binary = binary
        self.exp = {}       # key -> TLC record
        self.by_shape = {}  # (n, req, bind, script) -> [(core scenario, modules whose body ran)]
        self.verdict = {}   # key -> None | (class, detail)
        self.drift = set()
        self.events = {}    # key -> recorded status events (only with the module-events hook)
        self.tlc_given_runs = 0
        self.states = 0
        self.transitions = 0
        self.evals = 0

    def add_expectations(self, recs):
        for r in recs:
            k = key(r)
            if k not in self.exp:
                self.exp[k] = r
                c = core(r)
                sk = json.dumps([c["n"], c["req"], c["bind"], c["script"]], sort_keys=True)
                ran = {e["m"] for e in r["out"] if e["e"] == "run"}
                self.by_shape.setdefault(sk, []).append((c, ran))

    def canon(self, sc):
        """The model decides the kind of a body when the body is reached; a module that is never reached keeps
        kind "s".  Maps a scenario to that canonical form when the model already produced it."""
        c = core(sc)
        if key(c) in self.exp:
            return c
        sk = json.dumps([c["n"], c["req"], c["bind"], c["script"]], sort_keys=True)
        for e, ran in self.by_shape.get(sk, []):
            if all(e["kind"][m - 1] == c["kind"][m - 1] or m not in ran for m in range(1, c["n"] + 1)):
                return e
        return c

    def need_model(self, scs):
        miss = {}
        for sc in scs:
            k = key(sc)
            if k not in self.exp:
                miss[k] = core(sc)
        if not miss:
            return
        vlib.log(f"[C17] asking TLC for {len(miss)} scenarios outside the sweep")
        os.makedirs(W, exist_ok=True)
        path = os.path.join(W, f"given-{os.getpid()}.ndjson")
        with open(path, "w") as f:
            for k in sorted(miss):
                f.write(json.dumps(miss[k]) + "\n")
        r = vlib.run_tlc(SPEC, "MCModules_given.cfg", workers=WORKERS, env_extra={"C17_SCEN": path}, timeout=1500)
        vlib.tlc_must_pass(r, "Modules/given scenarios")
        self.tlc_given_runs += 1
        self.states += r["distinct"]
        self.transitions += r["states"]
        self.add_expectations(o for t, o in r["tagged"] if t == "REPLAY")
        os.unlink(path)
        lost = [k for k in miss if k not in self.exp]
        if lost:
            raise vlib.ToolError(f"TLC returned no expectation for {len(lost)} given scenarios, e.g. {lost[0]}")

    def run(self, scs, procs=PROCS):
        """Makes sure every scenario has a verdict."""
        todo = {}
        for sc in scs:
            k = key(sc)
            if k not in self.verdict:
                todo[k] = core(sc)
        if not todo:
            return
        self.need_model(todo.values())
        keys = sorted(todo)
        rendered = [render(todo[k], i) for i, k in enumerate(keys)]
        res = self._harness(rendered, procs)
        retry = []
        for i, k in enumerate(keys):
            v = compare(self.exp[k], rendered[i]["steps"], res.get(i))
            if v is not None:
                retry.append(i)
            self.verdict[k] = v
            self.evals += len(rendered[i]["steps"])
            if res.get(i) and "events" in res[i]:
                self.events[k] = res[i]["events"]
            if v is None and identity_drift(self.exp[k], rendered[i]["steps"], res[i]):
                self.drift.add(k)
        if retry:
            # determinism: a failure must reproduce on a fresh run (DESIGN 3.3)
            res2 = self._harness([rendered[i] for i in retry], 1)
            for i in retry:
                k = keys[i]
                v2 = compare(self.exp[k], rendered[i]["steps"], res2.get(i))
                if (v2 is None) != (self.verdict[k] is None) or (v2 and v2[0] != self.verdict[k][0]):
                    raise vlib.ToolError(f"non-reproducible result for scenario {k}: {self.verdict[k]} then {v2}")

    def _harness(self, rendered, procs):
        if len(rendered) < 400 or procs <= 1:
            return vlib.run_lines(self.binary, rendered)
        size = (len(rendered) + procs - 1) // procs
        chunks = [(self.binary, rendered[i:i + size]) for i in range(0, len(rendered), size)]
        out = {}
        with multiprocessing.Pool(len(chunks)) as pool:
            for part in pool.map(_run_chunk, chunks):
                out.update(part)
        return out


def dedupe(cs, selfkey):
    out, seen = [], {selfkey}
    for c in cs:
        if key(c) not in seen:
            seen.add(key(c))
            out.append(c)
    return out


def shrink_all(ev, failing):
    """failing: list of core scenarios with a verdict.  Greedy class-preserving shrinking, all scenarios
    advanced together so that TLC is asked once per round.  Returns key -> (terminal scenario, class)."""
    nxt = {}
    frontier = {key(sc): core(sc) for sc in failing}
    allsc = dict(frontier)
    rounds = 0
    while frontier:
        rounds += 1
        if rounds > 60:
            raise vlib.ToolError("shrinking does not terminate")
        cands = {k: dedupe([ev.canon(c) for c in reductions(sc)], k) for k, sc in frontier.items()}
        flat = {}
        for cs in cands.values():
            for c in cs:
                flat.setdefault(key(c), c)
        t1 = time.time()
        ev.run(flat.values())
        vlib.log(f"[C17] shrink round {rounds}: {len(frontier)} scenarios, {len(flat)} candidates, {time.time() - t1:.0f}s")
        new = {}
        for k, cs in cands.items():
            cls = ev.verdict[k][0]
            nxt[k] = None
            for c in cs:
                v = ev.verdict[key(c)]
                if v is not None and v[0] == cls:
                    nxt[k] = key(c)
                    allsc.setdefault(key(c), c)
                    if key(c) not in nxt and key(c) not in frontier:
                        new[key(c)] = c
                    break
        frontier = new
    result = {}
    for sc in failing:
        k = key(sc)
        t = k
        while nxt.get(t):
            t = nxt[t]
        result[k] = (allsc[t], ev.verdict[k][0])
    return result


def signature(sc, cls):
    c = core(sc)
    s = c["script"]
    return {"class": cls, "n": c["n"], "req": c["req"], "kind": c["kind"], "bind": c["bind"],
            "script": [s["e1"], s["e2"], s["drain"]]}


def sig_to_scenario(sig):
    return {"n": sig["n"], "req": sig["req"], "kind": sig["kind"], "bind": sig["bind"],
            "script": {"e1": sig["script"][0], "e2": sig["script"][1], "drain": sig["script"][2]}}


def detail_of(ev, sc, example=None):
    k = key(sc)
    r = render(sc, 0)
    d = {"scenario": core(sc), "modules": r["modules"], "steps": r["steps"], "model_expectation": ev.exp[k],
         "failure": ev.verdict[k]}
    if example is not None:
        d["found_in"] = example
    return d


def validate_status_traces(ev, ck, keys):
    """Mode B: the recorded status(module, from, to) events of the given scenarios are validated against the
    status machine and stack discipline of the specification (spec/modules/ModulesTrace.tla).  A rejected trace
    is an internal-state mismatch, reported as MODEL-DRIFT (the property is stated on observable behaviour)."""
    TRACE = os.path.join(vlib.SPEC, "modules", "ModulesTrace.tla")
    todo = [k for k in keys if k in ev.events]
    validated = events = 0
    states = 0
    guard = 0
    while todo and guard < 6:
        guard += 1
        path = os.path.join(W, f"trace-{os.getpid()}.ndjson")
        owner = []          # event index (1-based) -> scenario key
        with open(path, "w") as f:
            for k in todo:
                c = json.loads(k)
                f.write(json.dumps({"ev": "reset", "n": c["n"], "req": c["req"]}) + "\n")
                owner.append(k)
                for name, frm, to in ev.events[k]:
                    m = int(name[1:]) if name[1:].isdigit() else 0
                    f.write(json.dumps({"ev": "st", "m": m, "from": frm, "to": to}) + "\n")
                    owner.append(k)
        r = vlib.run_tlc(TRACE, "ModulesTrace.cfg", workers=1, dfs=True, env_extra={"C17_TRACE": path}, timeout=1800)
        os.unlink(path)
        states += r["distinct"]
        rej = [o for t, o in r["tagged"] if t == "REJECTED"]
        if r["ok"]:
            validated += len(todo)
            events += len(owner)
            break
        if not rej:
            vlib.log(r["raw_tail"])
            raise vlib.ToolError("trace validation failed without a rejected event")
        at = rej[0]["at"]
        bad = owner[at - 1]
        i = todo.index(bad)
        validated += i
        vlib.log(f"MODEL-DRIFT: recorded module status transitions leave the status machine of Modules.tla at "
                 f"{json.dumps(rej[0]['event'])} in scenario {bad}")
        ck.drift += 1
        todo = todo[i + 1:]
    ck.cov["status_traces_validated"] = validated
    ck.cov["status_trace_states"] = states
    return validated


def coverage_check(raw_tail, ck):
    """thorough: every action of the MC spec was taken (TLC -coverage 1)."""
    import re
    seen = {}
    for m in re.finditer(r"<(\w+) line \d+, col \d+ to line \d+, col \d+ of module Modules>: (\d+):(\d+)", raw_tail):
        seen[m.group(1)] = seen.get(m.group(1), 0) + int(m.group(3))
    return seen


# ------------------------------------------------------------------ entry point

def run(tier, replay=None):
    ck = vlib.Check("C17", tier, "model_checking", replay)
    bindir = vlib.build_harness(["hmod"])
    ev = Evaluator(os.path.join(bindir, "hmod"))
    os.makedirs(W, exist_ok=True)

    if replay:
        sig = ck.replay_sig
        sc = sig_to_scenario(sig)
        ev.run([sc])
        v = ev.verdict[key(sc)]
        if v is not None and v[0] == sig["class"]:
            ck.failure(sig, detail_of(ev, sc))
        elif v is not None:
            ck.failure(signature(sc, v[0]), detail_of(ev, sc))
        ck.cov.update(states=ev.states, transitions=ev.transitions, traces_validated_against_impl=1,
                      evaluations=ev.evals, distinct_nontrivial=int(nontrivial(sc)), rule="replay of one scenario")
        return ck.finish()

    scen = {}
    states = trans = 0
    cov_actions = {}
    cmds = []

    def tlc_job(job):
        i, (cfg, sim, depth) = job
        time.sleep(0.05 * i)      # distinct metadir names
        cache = None
        if os.environ.get("C17_DEVCACHE"):      # development only: reuse the output of an identical TLC run
            h = hashlib.sha1()
            for f in ("Modules.tla", "MCModules.tla", cfg):
                h.update(open(os.path.join(os.path.dirname(SPEC), f), "rb").read())
            h.update(repr((sim, depth, vlib.seed() if sim else 0, tier)).encode())
            cache = os.path.join(W, f"devcache-{cfg}-{h.hexdigest()[:12]}.json")
            if os.path.exists(cache):
                return cfg, sim, json.load(open(cache))
        r = _tlc(cfg, sim, depth)
        if cache:
            json.dump(r, open(cache, "w"))
        return cfg, sim, r

    def _tlc(cfg, sim, depth):
        if cfg == "MCModules_live.cfg":
            return vlib.run_tlc(SPEC, cfg, workers=min(2, WORKERS), timeout=2400)
        return vlib.run_tlc(SPEC, cfg, workers=(1 if sim else WORKERS), simulate=sim, depth=depth,
                            tseed=(vlib.seed() if sim else None),
                            coverage=(tier == "thorough" and not sim), timeout=2400)
    jobs = list(enumerate(TIERS[tier]))
    with concurrent.futures.ThreadPoolExecutor(max_workers=2) as pool:
        results = list(pool.map(tlc_job, jobs))
    for cfg, sim, r in results:
        vlib.tlc_must_pass(r, "Modules/" + cfg)
        states += r["distinct"]
        trans += r["states"]
        cmds.append(r["cmd"])
        n0 = len(scen)
        for t, o in r["tagged"]:
            if t == "REPLAY":
                scen.setdefault(key(o), o)
        vlib.log(f"[C17] {cfg}: {r['states']} states, {len(scen) - n0} new scenarios, {r['wall']:.0f}s")
        if tier == "thorough" and not sim:
            for a, c in coverage_check(r["raw_tail"], ck).items():
                cov_actions[a] = cov_actions.get(a, 0) + c
    ev.add_expectations(scen.values())

    allsc = [core(s) for s in scen.values()]
    t1 = time.time()
    ev.run(allsc)
    vlib.log(f"[C17] harness replay of {len(allsc)} scenarios: {time.time() - t1:.0f}s")
    failing = [sc for sc in allsc if ev.verdict[key(sc)] is not None]
    nt = sum(1 for sc in allsc if nontrivial(sc))
    vlib.log(f"[C17] {len(allsc)} scenarios replayed, {nt} non-trivial, {len(failing)} disagree with the model")
    if failing:
        shr = shrink_all(ev, failing)
        by_sig = {}
        for sc in failing:
            t, cls = shr[key(sc)]
            by_sig.setdefault(json.dumps(signature(t, cls), sort_keys=True), (t, cls, []))[2].append(sc)
        for sk in sorted(by_sig):
            t, cls, members = by_sig[sk]
            ex = min(members, key=lambda s: (s["n"], key(s)))
            ck.failure(signature(t, cls), detail_of(ev, t, example=ex))
            ck.add("failing_scenarios", len(members))
    for k in sorted(ev.drift)[:3]:
        vlib.log(f"MODEL-DRIFT: second Evaluate returned a {'different' if ev.exp[k]['same'] else 'shared'} promise object "
                 f"where the specification {'shares' if ev.exp[k]['same'] else 'creates'} one: {k}")
    ck.drift += len(ev.drift)

    rnd = random.Random(vlib.seed())
    if ev.events:
        pool = sorted(k for k in ev.events if k in scen and ev.verdict.get(k) is None)
        sample = rnd.sample(pool, min(len(pool), 600 if tier == "quick" else 6000))
        validate_status_traces(ev, ck, sample)
    else:
        ck.cov["status_traces_validated"] = 0
        ck.assumptions.append("mode B (status events validated against ModulesTrace.tla) is off: boa_engine::verif::take_module_events "
                              "is not in /repo (work/proposals/C17-hook/hook.patch not applied)")
    for sc in rnd.sample(allsc, min(3, len(allsc))):
        e = ev.exp[key(sc)]
        ck.sample({"scenario": sc, "expected_trace": [ev_line(x) for x in e["out"]],
                   "expected_promises": [prom_str(p) for p in e["obs"][-1]["ps"]], "loader_log": e["log"]})
    ck.cov.update(states=states + ev.states, transitions=trans + ev.transitions,
                  traces_validated_against_impl=len(ev.verdict), evaluations=ev.evals, distinct_nontrivial=nt,
                  scenarios_in_sweep=len(allsc), shrink_tlc_runs=ev.tlc_given_runs, checker_cmd=cmds,
                  rule="one scenario per (graph with request order, body kinds, binding styles, host script) emitted by the "
                       "model; non-trivial = the graph has a cycle (incl. self import), or a module with top-level await, "
                       "or a throwing module that some module imports")
    if tier == "thorough":
        ck.cov["tlc_coverage"] = cov_actions
        missing = [a for a in ACTIONS if cov_actions.get(a, 0) == 0]
        if missing:
            raise vlib.ToolError(f"actions never taken: {missing}")
    if nt < FLOOR[tier]:
        raise vlib.ToolError(f"vacuity guard: only {nt} non-trivial scenarios (floor {FLOOR[tier]})")
    ck.assumptions += [
        "module bodies are the abstract bodies of Modules.tla (print, reads of one live binding, one optional await 0, "
        "one optional throw); `await 0` costs one job, the settlement of a module's own promise one more",
        "the loader log is compared as a multiset of (referrer, specifier) pairs; the order of host calls is not part of the property",
        "promise identity of a repeated Evaluate is reported as MODEL-DRIFT, only the outcome is compared",
    ]
    return ck.finish()
