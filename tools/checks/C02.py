"""C02 - No input makes the engine fail internally (no panic, abort or EnginePanic).

Model: the host-entry discipline of spec/vm/HostVm.tla: `Completions == {"return", "throw", "limit"}` - a host entry
(evaluation of a script or module, running jobs) has exactly these ways out and leaves a context on which the next
entry is enabled.  There is no action for a Rust panic, a process abort, an internal EnginePanic error or a failed
debug assertion.
Binding (B): harness/crates/hhost records, for every entry it makes, one enter and one exit event (kind, VM depths,
class of the completion) - on FRESH contexts (one input per context) and on REUSED contexts (chains of inputs on one
context, so that whatever an input leaves behind meets the next ones) - and TLC validates the recorded executions
against spec/vm/HostVmTrace.tla.  An exit that is not return/throw/limit has no matching step ("internal-failure");
a panic or abort of the replay process leaves the execution without its exit event.  Other rejections (depths not
restored) belong to C07 and are only counted.
Inputs: every program text the other models of this repository produce (C01 grids and corpora, C04/C05/C10 corpora,
the C03 compiler corpus incl. the snippets extracted from boa's own tests, the C10 leak probes), a list of
boundary probes for builtins, and seeded token-level mutants of all of them (delete/duplicate/swap/insert tokens,
unbalanced and deeply nested brackets, truncation, splices of two programs, lone surrogates through the UTF-16 entry,
invalid UTF-8 through the bytes and reader entries), evaluated as scripts, as modules and through the async entry,
under small loop/recursion/stack limits so that limit errors occur at many different points.
"every byte string" is not enumerable; what is claimed is the outcome invariant over this model-generated corpus and
its mutants (see DESIGN.md 5/C02).
"""
import json
import os
import random
import re
import sys

sys.path.insert(0, os.path.dirname(os.path.dirname(os.path.abspath(__file__))))
import vlib
import jscore
from checks import C01 as c01
from checks import C07 as c07
from checks import C19 as c19
from checks import C10 as c10

TIMEOUT_MS = 20000          # per fresh execution; the replay process ends itself (exit status 3) when a scenario exceeds it
LIMITS = [{"loop": 20000, "rec": 200}, {"loop": 50, "rec": 12}, {"loop": 3, "rec": 3, "stack": 64}, {"loop": 1000, "rec": 40, "stack": 512}]

PROBES = [
    "new Array(-1)", "'x'.repeat(2**28)", "new ArrayBuffer(2**53)",
    "new Uint8Array(2**40)", 
    "var a = []; a.length = 2**32 - 1; a.push(1)", "var a = [1,2,3]; a.length = 2**32", 
    "JSON.parse('['.repeat(5000))", "JSON.parse('[' + '1,'.repeat(10) + '1]'.repeat(1))", "JSON.stringify({get a(){ throw 1 }})",
    "var o = {}; o.o = o; JSON.stringify(o)", "JSON.parse('{\"__proto__\": 1}')", "JSON.parse('\"\\\\ud800\"')", "JSON.rawJSON('{}')",
    "var r = /(?<a>.)\\k<a>/u; r.exec('aa')", "new RegExp('(')", "new RegExp('a'.repeat(1e5))", "/(a*)*b/.exec('a'.repeat(16))", "'a'.match(/$^/gimsuyd)",
    "new RegExp('[')", "RegExp.prototype.exec.call(1)", "/a/[Symbol.replace]('a', {toString(){ throw 2 }})",
    "(1).toFixed(101)", "(1).toString(37)", "(1).toPrecision(0)", "Number.prototype.toString.call('x')", "BigInt(1.5)", "2n ** -1n", "1n / 0n",
    "BigInt.asUintN(2**53, 1n)", "10n ** 100000n", "BigInt('0x')", "parseInt('1'.repeat(400))", "parseFloat('1e' + '9'.repeat(30))",
    "new Date(NaN).toISOString()", "new Date(8.64e15 + 1).toISOString()", "Date.UTC()", "new Date(2**60).getTime()", "new Date('x').toJSON()",
    "Symbol() + ''", "Symbol.keyFor(1)", "Symbol.for(Symbol())", "Object.defineProperty(1, 'x', {})", "Object.defineProperty({}, 'x', {get: 1})",
    "Reflect.construct(function(){}, [], 1)", "Reflect.apply(1)", "new Proxy({}, null)", "var p = Proxy.revocable({}, {}); p.revoke(); p.proxy.x",
    "new Proxy({}, {ownKeys(){ return [1] }}).x; Object.keys(new Proxy({}, {ownKeys(){ return [1] }}))",
    "new Proxy(function(){}, {construct(){ return 1 }}); new (new Proxy(function(){}, {construct(){ return 1 }}))()",
    "Object.getOwnPropertyDescriptor(new Proxy({}, {getOwnPropertyDescriptor(){ return 1 }}), 'x')",
    "Object.setPrototypeOf(Object.prototype, {})",
    "function f(){ f() } f()", "function f(){ try { f() } finally { f() } } f()", "var o = {get x(){ return this.x }}; o.x",
    "var a = []; a[0] = a; a.toString(); String([a, a])", "[].reduce(function(){})", "[1].reduceRight()", "Array.from({length: -1})",
    "[1,2,3].copyWithin(NaN, -Infinity, Infinity)", "[3,2,1].sort(function(){ throw 1 })", "[1,2].sort(1)",
    "[1,2,3].flat(Infinity)", "var a = [1]; a.flatMap(function(){ a.push(1); return a })", "new Array(5).fill().map(function(x, i){ return i })",
    "new Map([1])", "new Set(1)", "new WeakMap([[1, 2]])", "new WeakRef(1)", "new FinalizationRegistry(1)", "new WeakSet().add(Symbol.for('x'))",
    "var s = new Set([1,2,3]); for (var x of s) { s.delete(x); s.add(x + 3); if (x > 20) break }",
    "new Int8Array(3).set([1,2,3,4])", "new Int8Array(new ArrayBuffer(8), 1, 8)", "new Float64Array(new ArrayBuffer(9))", "new DataView(new ArrayBuffer(1)).getInt32(0)",
    "var b = new ArrayBuffer(8, {maxByteLength: 16}); var t = new Uint8Array(b); b.resize(0); t[0]; t.fill(1); b.resize(16); t.length",
    "var b = new ArrayBuffer(8); var t = new Uint8Array(b); b.transfer(); t.length; t[0] = 1; t.subarray(0)", "Atomics.wait(new Int32Array(new SharedArrayBuffer(4)), 0, 1, 0)",
    "Atomics.add(new Int8Array(2), 5, 1)", "new Uint8Array(8).subarray(2).subarray(-1, {valueOf(){ return 9 }})", "Uint8Array.from({length: 3, get 0(){ throw 1 }})",
    "new BigInt64Array(1)[0] = 1", "new Uint8Array(2).sort(function(){ return {} })", "new Uint8Array(4).toSorted(1)", "new Uint8Array(2).with(5, 1)",
    "Promise.resolve().then(function(){ throw 1 })", "new Promise(1)", "Promise.all(1)", "Promise.race([{then(r){ r(1); r(2); throw 3 }}])",
    "async function f(){ await f() } f()", "async function* g(){ yield* g() } g().next()", "var it = (function*(){ yield* it })(); it.next()",
    "function* g(){ try { yield 1 } finally { yield 2 } } var i = g(); i.next(); i.return(1); i.return(2); i.throw(3)", "(function*(){})().throw(1)",
    "class A extends null { constructor(){ super() } } new A()", "class B extends (class {}) { constructor(){ this.x } } new B()", "class C { static #x; static m(o){ return o.#x } } C.m({})",
    "class D { constructor(){ return 1 } } new D(); class E extends D { constructor(){ return 1 } } new E()", "new (class { static { throw 1 } })()",
    "eval('var x; let x')", "eval('(' .repeat(1000))", "(0, eval)('let q = 1; q')", "new Function('a', '}', '{')", "Function('return this')()", "new Function('...a', 'b', '')",
    "with (null) {}", "with ({x: 1}) { eval('var x = 2'); x }", "label: label: ;", "'use strict'; arguments = 1", "delete Object.prototype.__proto__; ({}).__proto__",
    "Object.prototype.__defineGetter__.call(null, 'x', function(){})", "escape('\\ud800'); unescape('%u'); decodeURI('%'); encodeURI('\\ud800')",
    "'a'.localeCompare('b', 'xx-invalid-')", "'abc'.normalize('x')", "String.fromCodePoint(-1)", "'x'.at({valueOf(){ throw 1 }})",
    "structuredClone", "globalThis.globalThis = 1; globalThis", "Object.freeze(globalThis); var zz = 1", "Object.defineProperty(globalThis, 'undefined', {value: 1})",
    "import('x')", "import.meta", "await 1", "yield 1", "new.target", "super.x", "#x in 1", "a?.b`c`", "for (let let of []) ;", "({a, b} = 1)", "[...1]", "`${{toString: null, valueOf: null}}`",
]


# integer-like arguments at and beyond every internal width, for builtins that take positions, counts and lengths
EXTREMES = ["-1e300", "1e300", "-Infinity", "Infinity", "NaN", "-9223372036854775808", "9223372036854775807", "2**53", "-(2**53)", "4294967296",
            "-4294967297", "2147483648", "-2147483649", "-0", "0.5", "-1"]
EXTREME_CALLS = [
    "'abc'.at(X)", "'abc'.charAt(X)", "'abc'.charCodeAt(X)", "'abc'.codePointAt(X)", "'abc'.slice(X)", "'abc'.slice(1, X)", "'abc'.substring(X, 1)",
    "'abc'.substr(X, 2)", "'abc'.substr(1, X)", "'abc'.indexOf('b', X)", "'abc'.lastIndexOf('b', X)", "'abc'.startsWith('a', X)", "'abc'.endsWith('c', X)",
    "'abc'.includes('a', X)", "'abc'.padEnd(X % 1000, 'x').length", "'ab'.repeat(X % 100 || 0)", "'a,b'.split(',', X)", "String.fromCharCode(X)",
    "[1,2,3].at(X)", "[1,2,3].slice(X)", "[1,2,3].slice(0, X)", "[1,2,3].splice(X, 1)", "[1,2,3].splice(1, X)", "[1,2,3].fill(0, X)", "[1,2,3].fill(0, 1, X)",
    "[1,2,3].copyWithin(X, 0)", "[1,2,3].copyWithin(0, X)", "[1,2,3].copyWithin(0, 1, X)", "[1,2,3].indexOf(2, X)", "[1,2,3].lastIndexOf(2, X)",
    "[1,2,3].includes(2, X)", "[1,[2,[3]]].flat(X)", "[1,2,3].with(X, 0)", "[1,2,3].toSpliced(X, 1)", "[1,2,3].toSpliced(1, X)", "Array.from({length: 2}).at(X)",
    "new Uint8Array(4).at(X)", "new Uint8Array(4).subarray(X)", "new Uint8Array(4).subarray(1, X)", "new Uint8Array(4).slice(X)", "new Uint8Array(4).fill(1, X)",
    "new Uint8Array(4).copyWithin(X, 1)", "new Uint8Array(4).set([1], X)", "new Uint8Array(4).with(X, 1)", "new Uint8Array(4).indexOf(0, X)",
    "new Uint8Array(4).lastIndexOf(0, X)", "new Uint8Array(4).includes(0, X)", "new Uint8Array(new ArrayBuffer(8), X)", "new Uint8Array(new ArrayBuffer(8), 0, X)",
    "new ArrayBuffer(8).slice(X)", "new ArrayBuffer(8).slice(0, X)", "new ArrayBuffer(8, {maxByteLength: 16}).resize(X)", "new SharedArrayBuffer(8).slice(X)",
    "new DataView(new ArrayBuffer(8)).getInt8(X)", "new DataView(new ArrayBuffer(8)).setFloat64(X, 1)", "new DataView(new ArrayBuffer(8), X)",
    "new DataView(new ArrayBuffer(8), 0, X)", "Atomics.load(new Int32Array(4), X)", "Atomics.store(new Int8Array(4), 0, X)", "Atomics.add(new Int16Array(4), X, 1)",
    "(1.5).toFixed(X)", "(1.5).toPrecision(X)", "(1.5).toExponential(X)", "(255).toString(X)", "BigInt.asIntN(X, 5n)", "BigInt.asUintN(X, -5n)",
    "new Date(X).getTime()", "new Date(0).setMonth(X)", "new Date(2000, X)", "Date.UTC(2000, 0, X)", "new Array(X)", "Array(X).length",
    "Math.round(X) + Math.trunc(X) + Math.clz32(X) + Math.imul(X, X) + Math.fround(X)", "parseInt('11', X)", "Number.parseFloat('1e' + X)", "X >>> X", "X << X", "X ** X",
    "X % X", "[].length = X", "({}).toString.call(X)", "JSON.stringify({a: 1}, null, X)", "'abc'.localeCompare('abd', undefined, {numeric: X})", "new Intl.NumberFormat().format(X)",
    "String(X).normalize()", "Reflect.ownKeys({[X]: 1})", "Object.fromEntries([[X, X]])", "new Map([[X, X]]).get(X)", "new Set([X, -X]).size", "Symbol(X).description",
    "structuredClone === undefined || structuredClone(X)", "var g = (function*(){ yield X })(); g.next(X); g.return(X)",
]


def extreme_probes():
    return [c.replace("X", "(" + x + ")") for c in EXTREME_CALLS for x in EXTREMES]


def escape_mutants(rng, texts, n):
    """identifier or keyword with one character written as a unicode escape"""
    out = []
    pool = [t for t in texts if 10 <= len(t) <= 600]
    word = re.compile(r"[A-Za-z_$][A-Za-z0-9_$]*")
    tries = 0
    while len(out) < n and tries < n * 5 and pool:
        tries += 1
        t = rng.choice(pool)
        ms = list(word.finditer(t))
        if not ms:
            continue
        m = rng.choice(ms)
        k = rng.randrange(m.start(), m.end())
        esc = ("\\u%04x" % ord(t[k])) if rng.random() < 0.7 else ("\\u{%x}" % ord(t[k]))
        out.append(("escape", {"src": t[:k] + esc + t[k + 1:]}, None, None))
    return out


def collect_texts():
    texts = []
    for name, ast in jscore.grids("quick"):
        texts.append(jscore.render(ast))
    for d in ("c01", "c04", "c05", "c10"):
        p = os.path.join(vlib.ROOT, "corpus", d)
        if os.path.isdir(p):
            for fn in sorted(os.listdir(p)):
                if fn.endswith(".ndjson"):
                    for line in open(os.path.join(p, fn)):
                        if line.strip():
                            texts.append(jscore.render(json.loads(line)["ast"]))
    mods = []
    for fn in ("hand.jsonl", "extracted.jsonl"):
        for line in open(os.path.join(vlib.ROOT, "corpus", "c03", fn)):
            o = json.loads(line)
            (mods if o.get("kind") == "module" else texts).append(o["src"])
    texts += [src for _, src in c10.LEAK_PROBES]
    return texts, mods


# one small statement per keyword-introduced construct, so that the escape mutants reach every keyword position
KEYWORD_SNIPPETS = [
    "try { f() } catch (e) { g() } finally { h() }", "try { f() } catch { g() }", "try { f() } finally { h() }", "if (a) b; else c;", "do { x++ } while (x < 3)",
    "for (var i = 0; i < 2; i++) continue;", "for (const k in o) break;", "for (let v of a) ;", "switch (x) { case 1: break; default: y }", "with (o) { p }",
    "function f(a = 1, ...r) { return a }", "class A extends B { static m() { super.m() } get x() { return 1 } set x(v) {} constructor() { super() } }",
    "async function g() { await 1; for await (const x of y) ; }", "function* h() { yield 1; yield* k() }", "var a = new F(), b = typeof a, c = void 0, d = delete a.b, e = a in b, f = a instanceof F;",
    "label: for (;;) { break label }", "throw new Error('x')", "let x = 1; const y = 2; var z = 3;", "import('m'); import.meta;", "debugger;", "null; true; false; this;",
    "x = { get a() { return 1 }, set a(v) {}, async m() {}, *g() {}, async *ag() {} }", "export default 1", "import a, { b as c } from 'm'", "export { a as b }; export * from 'm'",
    "new.target", "a?.b?.[c]?.(d)", "(async () => await 1)()", "y = function* () { yield }", "enum = 1; implements = 2; interface = 3; package = 4; static = 5; yield = 6; let = 7; async = 8; of = 9; get = 10;",
]


def abort_class(how):
    msg, _, loc = str(how).partition(" @ ")
    msg = re.sub(r"\d+", "N", msg)[:140]
    loc = re.sub(r":\d+$", "", loc)
    if "core/" in loc:
        loc = loc[loc.index("core/"):]
    return f"{msg} @ {loc}" if loc else msg


def step_of(fields, i, rng):
    st = {"kind": "module" if i % 9 == 8 and "hex" not in fields else "eval"}
    st.update(fields)
    if "src" in fields and st["kind"] == "eval":
        st["via"] = ("bytes", "bytes", "script", "async")[i % 4]
        if st["via"] == "async":
            st["budget"] = rng.choice([1, 7, 256])
    elif "hex" in fields:
        st["via"] = ("bytes", "reader")[i % 2]
    return st


def run(tier, replay=None):
    ck = vlib.Check("C02", tier, "model_checking", replay)
    bindir = vlib.build_harness(["hhost"])
    hhost = os.path.join(bindir, "hhost")
    rng = random.Random(vlib.seed() * 104729 + 2)
    texts, mods = collect_texts()
    nmut = 3000 if tier == "quick" else 40000
    ms = c19.mutants(rng, texts + mods, nmut) + escape_mutants(rng, texts + mods + KEYWORD_SNIPPETS, nmut // 6)
    inputs = []                                   # (label, fields)
    take = texts if tier == "thorough" else rng.sample(texts, min(len(texts), 1500))
    inputs += [("corpus", {"src": t}) for t in take]
    inputs += [("probe", {"src": t}) for t in PROBES]
    xp = extreme_probes()
    inputs += [("extreme", {"src": t}) for t in (xp if tier == "thorough" else rng.sample(xp, 500))]
    inputs += [("mutant:" + kind, {("u16" if "u16" in f else "hex" if "hex" in f else "src"): f.get("u16") or f.get("hex") or f.get("src")})
               for kind, f, shown, units in ms]
    for t in mods:
        inputs.append(("module", {"src": t, "_module": True}))
    rng.shuffle(inputs)

    scen, meta = [], {}
    # fresh contexts: one input each
    for i, (label, f) in enumerate(inputs):
        f = dict(f)
        ismod = f.pop("_module", False)
        st = step_of(f, i, rng)
        if ismod:
            st["kind"] = "module"
        sid = "f%d" % i
        scen.append({"id": sid, "cfg": dict(LIMITS[i % len(LIMITS)]), "events": True, "timeout_ms": TIMEOUT_MS, "steps": [st]})
        meta[sid] = [(label, st)]
    # reused contexts: chains of 8 inputs
    order = list(range(len(inputs)))
    rng.shuffle(order)
    for c in range(0, len(order) - 7, 8):
        steps, ms_ = [], []
        for j, i in enumerate(order[c:c + 8]):
            label, f = inputs[i]
            f = dict(f)
            ismod = f.pop("_module", False)
            st = step_of(f, i + j, rng)
            if ismod:
                st["kind"] = "module"
            steps.append(st)
            ms_.append((label, st))
            if j % 3 == 2:
                steps.append({"kind": "jobs"})
                ms_.append(("jobs", {"kind": "jobs"}))
        sid = "r%d" % (c // 8)
        scen.append({"id": sid, "cfg": dict(LIMITS[(c // 8) % len(LIMITS)]), "events": True, "timeout_ms": 4 * TIMEOUT_MS, "steps": steps})
        meta[sid] = ms_
    vlib.log("[C02] %d inputs (%d corpus texts, %d probes, %d mutants, %d modules) -> %d fresh + %d reused executions"
             % (len(inputs), len(take), len(PROBES), len(ms), len(mods), len(inputs), len(scen) - len(inputs)))
    res = c01.run_hjs(hhost, scen, procs=6)

    execs, outcomes = [], {}
    internal = 0
    for sc in scen:
        r = res[sc["id"]]
        if "steps" not in r:
            how = r.get("panic") or r.get("abort")
            # which input: re-run the steps one by one on fresh contexts (and cumulatively) to attribute
            culprit = attribute(hhost, sc)
            ck.failure("internal failure: " + abort_class(how), {"how": how, "scenario_kind": "fresh" if sc["id"][0] == "f" else "reused",
                                                                  "culprit": culprit, "steps": sc["steps"] if len(json.dumps(sc["steps"])) < 6000 else "see culprit"})
            internal += 1
            continue
        for (label, st), o in zip(meta[sc["id"]], r["steps"]):
            k = o["c"].split(":")[0]
            outcomes[k] = outcomes.get(k, 0) + 1
            if k not in ("value", "throw", "limit"):
                ck.failure("internal failure: " + abort_class(o["c"]), {"completion": o["c"], "input": st, "label": label,
                                                                         "scenario_kind": "fresh" if sc["id"][0] == "f" else "reused"})
                internal += 1
        for g in c07.split_events(r.get("ev", [])):
            execs.append(("%s/%d" % (sc["id"], len(execs)), g))
    # trace validation of every recorded execution against HostVmTrace.tla (chunks keep each TLC run small)
    rej_internal, rej_other = 0, 0
    for b0 in range(0, len(execs), 6000):
        rej = c07.validate_traces(ck, execs[b0:b0 + 6000])
        for xid, o in rej.items():
            if o.get("why") == "internal-failure":
                rej_internal += 1
            else:
                rej_other += 1
    if rej_internal and not internal:
        raise vlib.ToolError("HostVmTrace rejected %d executions as internal failures that the outcome scan did not see" % rej_internal)
    ck.cov.update(inputs=len(inputs), corpus_texts=len(take), probes=len(PROBES), mutants=len(ms), modules=len(mods),
                  executions_fresh=len(inputs), executions_reused=len(scen) - len(inputs), entries=sum(outcomes.values()),
                  outcomes=outcomes, internal_failures=internal, traces_validated_against_impl=len(execs),
                  rejected_as_internal_failure=rej_internal, rejected_for_depths_c07=rej_other,
                  states=ck.cov.get("trace_states", 0), transitions=ck.cov.get("trace_events", 0),
                  evaluations=sum(outcomes.values()),
                  distinct_nontrivial=len({json.dumps(st, sort_keys=True) for v in meta.values() for _, st in v}),
                  checker_cmd="tlc -workers 1 -config HostVmTrace.cfg HostVmTrace.tla (TRACE=<recorded enter/exit events>)",
                  rule="inputs = program texts of the other models' corpora + builtin boundary probes + seeded token-level mutants "
                       "(incl. lone surrogates and invalid UTF-8); each runs on a fresh context and inside a chain on a reused "
                       "context, under one of four limit settings; every recorded execution is validated against HostVmTrace.tla; "
                       "distinct = distinct (input, entry mode) steps")
    for sid in ("f0", "r0"):
        ck.sample({"execution": sid, "steps": [json.dumps(st)[:160] for _, st in meta[sid]][:4],
                   "completions": [o["c"][:60] for o in res[sid].get("steps", [])][:4]})
    if outcomes.get("limit", 0) < 50 or outcomes.get("throw", 0) < 500 or outcomes.get("value", 0) < 500:
        raise vlib.ToolError("vacuity guard: outcome mix %r" % outcomes)
    ck.assumptions += ["the outcome invariant is claimed for the inputs generated here, not for all byte strings (not enumerable by a model)",
                       "a hang is bounded by the loop/recursion limits and the batch time-out of the replay process and reported as abort"]
    return ck.finish()


def attribute(hhost, sc):
    """which step kills the process: shortest prefix that dies, then that step alone on a fresh context"""
    steps = sc["steps"]
    for n in range(1, len(steps) + 1):
        r = vlib.run_lines(hhost, [{"id": "p", "cfg": sc["cfg"], "timeout_ms": 4 * TIMEOUT_MS, "steps": steps[:n]}])["p"]
        if "steps" not in r:
            alone = vlib.run_lines(hhost, [{"id": "a", "cfg": sc["cfg"], "timeout_ms": TIMEOUT_MS, "steps": [steps[n - 1]]}])["a"]
            st = json.dumps(steps[n - 1])
            return {"step_index": n - 1, "step": st if len(st) < 4000 else st[:4000] + "...", "dies_alone_on_a_fresh_context": "steps" not in alone}
    return {"note": "did not reproduce on re-run"}
