"""C01 - Core-language evaluation agrees with the ECMAScript reference semantics.

Model: spec/lang/JsCore.tla (small-step CEK machine giving ECMA-262 semantics to MiniJS); TLC evaluates every
program of the run in one batch (model gate: environment chain, TDZ discipline, continuation balance, heap
well-formedness, determinism) and prints the expected print trace + completion.
Binding (A): every program is rendered to JavaScript and run by hjs under the entry-mode matrix
(Context::eval from bytes / UTF-16 / reader, Script::parse+evaluate, evaluate_async_with_budget, strict flag on
the context instead of the directive, and - as a separate program with its own expectation - the body wrapped in
a function entered through JsObject::call); the observation must equal TLC's.

Programs: deterministic interaction grids (tools/jscore.py grids) + the committed vetted corpus corpus/c01/*.ndjson
(generated once from recorded seeds; VERIF_SEED selects the slice and the order, never the content).
"""
import hashlib
import json
import os
import random
import sys
import time
from concurrent.futures import ProcessPoolExecutor

sys.path.insert(0, os.path.dirname(os.path.dirname(os.path.abspath(__file__))))
import vlib
import jscore

CORPUS_DIR = os.path.join(vlib.ROOT, "corpus", "c01")
EXPECTED_FAILURES = os.path.join(CORPUS_DIR, "expected_failures.json")
EVAL_MODES = ["bytes", "utf16", "reader", "script", "async"]
SAFETY = {"loop": 200000, "rec": 400}          # vetted programs never come near; keeps a mutated engine from hanging the check


def prog_key(ast):
    return hashlib.sha1(json.dumps(ast, sort_keys=True, separators=(",", ":")).encode()).hexdigest()[:16]


def load_corpus():
    out = []
    if os.path.isdir(CORPUS_DIR):
        for fn in sorted(os.listdir(CORPUS_DIR)):
            if fn.endswith(".ndjson"):
                with open(os.path.join(CORPUS_DIR, fn)) as f:
                    for line in f:
                        if line.strip():
                            o = json.loads(line)
                            out.append(("corpus/%s/%s" % (fn[:-7], o["id"]), o["ast"]))
    return out


def scenario(sid, ast, mode, budget=256):
    """hjs scenario for one (program, entry mode)"""
    if mode == "call":
        d, _ = jscore.wrap_call(ast)
        return {"id": sid, "cfg": dict(SAFETY), "steps": [{"kind": "eval", "src": jscore.render(d)}, {"kind": "call", "fn": "f", "args": []}]}
    if mode == "strictcfg":
        cfg = dict(SAFETY)          # strict flag on the context in addition to the directive
        cfg["strict"] = True
        return {"id": sid, "cfg": cfg, "steps": [{"kind": "eval", "src": jscore.render(ast)}]}
    st = {"kind": "eval", "src": jscore.render(ast), "via": mode}
    if mode == "async":
        st["budget"] = budget
    return {"id": sid, "cfg": dict(SAFETY), "steps": [st]}


def observation(res, mode, early):
    """(out, completion) of a scenario result; a panic/abort is an observation no model allows"""
    if "steps" not in res:
        return (None, "panic:" + str(res.get("panic") or res.get("abort")))
    steps = res["steps"]
    if mode == "call":
        if early or not steps[0]["c"].startswith("value:"):
            return (steps[0]["out"], steps[0]["c"])
        return (steps[0]["out"] + steps[1]["out"], steps[1]["c"])
    return (steps[0]["out"], steps[0]["c"])


def _run_chunk(args):
    binary, chunk = args
    return vlib.run_lines(binary, chunk) if chunk else {}


def run_hjs(binary, scen, procs=4):
    """runs the scenarios in `procs` hjs processes (vlib.run_lines names its files by pid: one process per chunk)"""
    if not scen:
        return {}
    if len(scen) < 200:
        return vlib.run_lines(binary, scen)
    chunks = [scen[i::procs] for i in range(procs)]
    out = {}
    with ProcessPoolExecutor(max_workers=procs) as ex:
        for r in ex.map(_run_chunk, [(binary, ch) for ch in chunks]):
            out.update(r)
    return out


def modes_for(ast, with_call):
    ms = list(EVAL_MODES)
    if ast.get("strict"):
        ms.append("strictcfg")
    if with_call:
        ms.append("call")
    return ms


def canonical(ast):
    """alpha-renames identifiers in order of first appearance so that shrunk programs compare equal"""
    m = {}
    keep = {"undefined", "NaN", "Infinity", "Error", "TypeError", "ReferenceError", "RangeError", "SyntaxError", "Object",
            "Array", "Symbol", "String", "Number", "Boolean", "globalThis", "arguments", "print"}

    def nm(x):
        if x in keep or x == "":
            return x
        if x not in m:
            m[x] = "v%d" % (len(m) + 1)
        return m[x]

    def rec(n):
        if isinstance(n, list):
            return [rec(x) for x in n]
        if not isinstance(n, dict):
            return n
        o = {}
        for k_, v in n.items():
            if k_ in ("n", "name") and isinstance(v, str) and n.get("t") in ("ident", "function", "generator", "fn", "genfn", "class", "classexpr"):
                o[k_] = nm(v)
            elif k_ == "l" and isinstance(v, str) and n.get("t") in ("labeled", "break", "continue"):
                o[k_] = nm(v)
            else:
                o[k_] = rec(v)
        return o
    return rec(ast)


class Runner:
    def __init__(self, ck, binary, workers):
        self.ck, self.binary, self.workers = ck, binary, workers
        self.tlc_states = self.tlc_trans = 0
        self.tlc_cmd = None

    def expectations(self, asts):
        rs, st = jscore.expect(asts, workers=self.workers, timeout=1500)
        self.tlc_states += st["states"]
        self.tlc_trans += st["transitions"]
        self.tlc_cmd = st["cmd"]
        return rs

    def compare(self, items, budget):
        """items: list of (name, ast, modes). Returns (mismatches, stats): mismatches = {index: {mode: (exp, got)}}"""
        asts = []
        slots = []          # per item: index of script expectation, index of call expectation
        for name, ast, modes in items:
            si = len(asts)
            asts.append(ast)
            ci = None
            if "call" in modes:
                ci = len(asts)
                asts.append(jscore.wrap_call(ast)[1])
            slots.append((si, ci))
        exp = self.expectations(asts)
        scen = []
        for i, (name, ast, modes) in enumerate(items):
            si, ci = slots[i]
            for m in modes:
                e = exp[ci] if m == "call" else exp[si]
                if e["c"] == "OutOfModel":
                    continue
                scen.append(scenario("%d/%s" % (i, m), ast, m, budget))
        res = run_hjs(self.binary, scen)
        mism = {}
        oom = 0
        nontrivial = 0
        for i, (name, ast, modes) in enumerate(items):
            si, ci = slots[i]
            if exp[si]["c"] == "OutOfModel":
                oom += 1
            elif exp[si]["out"] or exp[si]["steps"] >= 40:
                nontrivial += 1
            for m in modes:
                e = exp[ci] if m == "call" else exp[si]
                if e["c"] == "OutOfModel":
                    continue
                got = observation(res["%d/%s" % (i, m)], m, e.get("early", False))
                want = (e["out"], e["c"])
                if got != want:
                    mism.setdefault(i, {})[m] = (want, got)
        return mism, {"oom": oom, "nontrivial": nontrivial, "evaluations": len(scen), "exp": exp, "slots": slots}

    def still_fails(self, mode, budget):
        """predicate for the shrinker: candidates that the model evaluates and boa (in `mode`) contradicts"""
        def pred(cands):
            items = [("cand", c, [mode]) for c in cands]
            mism, _ = self.compare(items, budget)
            return [i in mism for i in range(len(cands))]
        return pred


def sig_str(sig):
    """the signature handed to Check.failure / listed in known_findings.d/C01.json: the shrunk, alpha-renamed program
    and the entry modes that disagree, as one canonical string"""
    return json.dumps(sig, sort_keys=True)


def load_expected_failures():
    if os.path.exists(EXPECTED_FAILURES):
        return json.load(open(EXPECTED_FAILURES))
    return {}


def fail_record(mm):
    """JSON-able record of the mismatching modes of one program"""
    return {m: {"want": [w[0], w[1]], "got": [g[0], g[1]]} for m, (w, g) in sorted(mm.items())}


def run(tier, replay=None):
    ck = vlib.Check("C01", tier, "model_checking", replay)
    bindir = vlib.build_harness(["hjs"])
    binary = os.path.join(bindir, "hjs")
    seed = vlib.seed()
    rng = random.Random(seed)
    workers = int(os.environ.get("C01_TLC_WORKERS", "8"))     # BUILDERS.md: TLC <= 8 workers
    runner = Runner(ck, binary, workers)
    budget = rng.choice([1, 3, 17, 256, 4096])

    grid = jscore.grids(tier)
    corpus = load_corpus()
    ncorp = 200 if tier == "quick" else len(corpus)
    if corpus:
        order = list(range(len(corpus)))
        rng.shuffle(order)                       # VERIF_SEED selects the slice and the order
        corpus = [corpus[i] for i in order[:ncorp]]
    call_every = 4 if tier == "quick" else 1
    call_off = rng.randrange(call_every)
    items = []
    for gi, (name, ast) in enumerate(grid):
        items.append((name, ast, modes_for(ast, gi % call_every == call_off)))
    for name, ast in corpus:
        items.append((name, ast, modes_for(ast, True)))

    t0 = time.time()
    batch = 2500
    known = load_expected_failures()
    total_oom = total_nontrivial = total_eval = 0
    failures = []        # (name, ast, mismatching modes)
    for b0 in range(0, len(items), batch):
        part = items[b0:b0 + batch]
        mism, st = runner.compare(part, budget)
        total_oom += st["oom"]
        total_nontrivial += st["nontrivial"]
        total_eval += st["evaluations"]
        for i, mm in sorted(mism.items()):
            failures.append((part[i][0], part[i][1], mm))
        if b0 == 0:
            for j in (0, len(part) // 2, len(part) - 1):
                e = st["exp"][st["slots"][j][0]]
                ck.sample({"program": part[j][0], "src": jscore.render(part[j][1])[:300], "expected_out": e["out"][:6], "expected_completion": e["c"]})
    vlib.log("[C01] %d programs (%d grid, %d corpus), %d evaluations, %d mismatching programs, %.0fs"
             % (len(items), len(grid), len(corpus), total_eval, len(failures), time.time() - t0))

    # vacuity control on the inputs: which node kinds (= evaluation rules of JsCore.tla) the evaluated programs contain
    kinds = {}
    for name, ast, modes in items:
        for n in jscore.walk(ast):
            kinds[n["t"]] = kinds.get(n["t"], 0) + 1
    all_kinds = set(jscore.SCHEMA) - {"program"}
    missing = sorted(all_kinds - set(kinds))
    ck.cov["node_kinds_covered"] = len(set(kinds) & all_kinds)
    ck.cov["node_kinds_missing"] = missing
    if tier == "thorough" and missing:
        raise vlib.ToolError("vacuity guard: node kinds never exercised: %s" % missing)

    fresh_shrinks = 0
    max_shrinks = 4 if tier == "quick" else 20
    shrink_rounds = 12 if tier == "quick" else 25
    for name, ast, mm in failures:
        rec = fail_record(mm)
        key = prog_key(ast)
        kn = known.get(key)
        if kn is not None and all(kn["modes"].get(m) == r for m, r in rec.items()):
            ck.failure(sig_str(kn["signature"]), {"program": name, "src": jscore.render(ast), "modes": rec, "cached_shrink": True})
            continue
        # reproducibility: the same scenarios once more on fresh contexts
        again, _ = runner.compare([(name, ast, sorted(mm))], budget)
        if fail_record(again.get(0, {})) != rec:
            raise vlib.ToolError("C01: mismatch of %s did not reproduce" % name)
        mode = sorted(mm)[0]
        if fresh_shrinks < max_shrinks:
            fresh_shrinks += 1
            small = jscore.shrink(ast, runner.still_fails(mode, budget), max_rounds=shrink_rounds, limit=250)
        else:
            small = ast
        small = canonical(small)
        allmodes = set(mm) >= set(modes_for(ast, False))
        sig = {"src": jscore.render(small), "modes": "all" if allmodes else sorted(mm)}
        ck.failure(sig_str(sig), {"program": name, "src": jscore.render(ast), "shrunk": jscore.render(small), "modes": rec})

    ck.cov.update(states=runner.tlc_states, transitions=runner.tlc_trans, traces_validated_against_impl=total_eval,
                  programs=len(items), grid_programs=len(grid), corpus_programs=len(corpus), evaluations=total_eval,
                  out_of_model=total_oom, distinct_nontrivial=total_nontrivial, disagreements_checked=len(failures),
                  async_budget=budget, checker_cmd=runner.tlc_cmd,
                  rule="one TLC-evaluated expectation per program (plus one for its function-wrapped form where the call entry "
                       "mode is exercised); evaluations = (program, entry mode) pairs replayed in boa and compared; non-trivial = "
                       "program that prints or takes >= 40 machine steps; OutOfModel programs are skipped")
    if total_nontrivial < (600 if tier == "quick" else 1500):
        raise vlib.ToolError("vacuity guard: only %d non-trivial programs" % total_nontrivial)
    if total_oom * 20 > len(items):
        raise vlib.ToolError("too many OutOfModel programs: %d of %d" % (total_oom, len(items)))
    ck.assumptions += ["the expectation is JsCore.tla's transcription of ECMA-262 for the MiniJS fragment; programs leaving the "
                       "modelled domain (non-integral numbers, unmodelled built-ins, resource bounds) are skipped",
                       "rendering is fully parenthesised; value rendering is hjs's structural one (error class, array length)"]
    return ck.finish()


# ------------------------------------------------------------------------------------------------ build-time tools
# (development only, not part of any registered command)
#   python3 tools/checks/C01.py build-corpus <profile> <seed> <n>     generate + vet one corpus file
#   python3 tools/checks/C01.py vet [quick|thorough]                   recompute corpus/c01/expected_failures.json

def _bindir():
    # development tools may reuse the existing binary (C01_NO_BUILD=1) when the shared target directory is busy
    if os.environ.get("C01_NO_BUILD"):
        return os.path.join(vlib.HARNESS, "target", "debug")
    return vlib.build_harness(["hjs"])


def _build_corpus(profile, seed, n):
    bindir = _bindir()
    runner = Runner(None, os.path.join(bindir, "hjs"), 3)
    progs = jscore.gen_programs(seed, n, profile)
    items = [("gen/%d" % i, p, modes_for(p, True)) for i, p in enumerate(progs)]
    mism, st = runner.compare(items, 256)
    keep = []
    dropped_oom = dropped_fail = 0
    for i, (name, ast, modes) in enumerate(items):
        e = st["exp"][st["slots"][i][0]]
        ec = st["exp"][st["slots"][i][1]]
        if e["c"] == "OutOfModel" or ec["c"] == "OutOfModel":
            dropped_oom += 1
            continue
        if i in mism:
            dropped_fail += 1
            with open(os.path.join(vlib.WORK, "c01-corpus-failing-%s-%d.ndjson" % (profile, seed)), "a") as f:
                f.write(json.dumps({"id": i, "ast": ast, "modes": fail_record(mism[i])}) + "\n")
            continue
        keep.append({"id": i, "profile": profile, "seed": seed, "ast": ast})
    os.makedirs(CORPUS_DIR, exist_ok=True)
    with open(os.path.join(CORPUS_DIR, "%s-%d.ndjson" % (profile, seed)), "w") as f:
        for o in keep:
            f.write(json.dumps(o, separators=(",", ":")) + "\n")
    vlib.log("corpus %s-%d: kept %d, out-of-model %d, failing on the unchanged tree %d (see work/)" % (profile, seed, len(keep), dropped_oom, dropped_fail))


def _vet(tier):
    bindir = _bindir()
    runner = Runner(None, os.path.join(bindir, "hjs"), 3)
    fams = os.environ.get("C01_VET_FAMILIES")          # restrict to some grid families and merge into the existing file
    if fams:
        items = [(n, a, modes_for(a, True)) for n, a in jscore.grids(tier, fams.split(","))]
    else:
        items = [(n, a, modes_for(a, True)) for n, a in jscore.grids(tier)] + [(n, a, modes_for(a, True)) for n, a in load_corpus()]
    fails = []
    for b0 in range(0, len(items), 1500):
        part = items[b0:b0 + 1500]
        mism, st = runner.compare(part, 256)
        for i, mm in sorted(mism.items()):
            fails.append((part[i][0], part[i][1], mm))
        vlib.log("batch %d: %d failing so far" % (b0, len(fails)))
    modes = [sorted(mm)[0] for _, _, mm in fails]

    def pred(cands):
        mism, _ = runner.compare([("cand", c, [modes[i]]) for i, c in cands], 256)
        return [j in mism for j in range(len(cands))]
    small = jscore.shrink_many([a for _, a, _ in fails], pred, max_rounds=30, limit=40, log=vlib.log)
    out = load_expected_failures() if fams else {}
    for (name, ast, mm), sm in zip(fails, small):
        allmodes = set(mm) >= set(modes_for(ast, False))
        sig = {"src": jscore.render(canonical(sm)), "modes": "all" if allmodes else sorted(mm)}
        out[prog_key(ast)] = {"program": name, "modes": fail_record(mm), "signature": sig}
    os.makedirs(CORPUS_DIR, exist_ok=True)
    with open(EXPECTED_FAILURES, "w") as f:
        json.dump(out, f, indent=1, sort_keys=True)
    sigs = sorted({json.dumps(v["signature"], sort_keys=True) for v in out.values()})
    vlib.log("%d failing programs, %d distinct signatures" % (len(out), len(sigs)))
    for s_ in sigs:
        vlib.log("SIG " + s_)


if __name__ == "__main__":
    sys.path.insert(0, os.path.dirname(os.path.dirname(os.path.abspath(__file__))))
    if sys.argv[1] == "build-corpus":
        _build_corpus(sys.argv[2], int(sys.argv[3]), int(sys.argv[4]))
    elif sys.argv[1] == "vet":
        _vet(sys.argv[2] if len(sys.argv) > 2 else "thorough")
