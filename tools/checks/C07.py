"""C07 - Every host entry leaves the VM balanced and the context reusable.

Model: spec/vm/HostVm.tla (frames / value stack / EXIT_EARLY / unwinding / host entries, written as the
intended, balanced design), spec/vm/HostVmHist.tla (history driver: executes entry plans with HostVm's
actions and emits the expected observations), spec/vm/HostVmTrace.tla (trace spec for recorded executions).

Binding
 (A) TLC enumerates host-entry histories (entry kind x completion kind x depth x catch site x native
     re-entry route); this driver renders each history to steps of harness/crates/hhost (eval / async eval /
     module / call / construct / run_jobs / generator resume on ONE context), runs them against the engine
     built from /repo and compares, per entry: VM depths after == depths before (the property's observable),
     host-visible completion and print trace == what the model produced, completions of nested entries,
     and - the reusability clause - the successful entries of the history give the same completions and
     prints on a fresh context that ran only the successful ones.
 (B) the recorded enter/exit event stream (with depths, including nested entries made by the recording
     natives __reenter/__renew) is validated by TLC against HostVmTrace.tla; Balanced, Nesting and
     EntryRestores are evaluated on the real executions.  Verdicts of (A) and (B) must agree.
 Long-history variant: 200 failing entries of one class, then a program under a small stack_size_limit.
Any Rust panic / abort / EnginePanic seen in a replay is reported with class "internal-failure" (C02: not
an allowed completion of HostVm)."""
import json
import os
import random

import vlib

SPECDIR = os.path.join(vlib.SPEC, "vm")
CFG_A = {"loop": 25, "rec": 24}                 # recursion is stopped by the recursion limit
CFG_B = {"loop": 25, "rec": 400, "stack": 700}  # recursion is stopped by the stack-size limit
CFG_LONG = {"loop": 25, "rec": 24, "stack": 512}
D0 = [1, 0, False]
LONG_N = 200
ALPHA_FULL = 2203       # number of entry plans in AlphaFull (MCHostVmHist.tla)
TRACE_CHUNK = 40000     # recorded executions per TLC trace-validation run


# ------------------------------------------------------------------------------------------ rendering

def argc_of(level):
    return level % 2


def call_next(k, sym, i):
    """source of the call level i makes to level i+1"""
    n = i + 1
    if sym["nat"] == n:
        rt = sym["rt"]
        if rt == "getter":
            return f"E{k}O{n}.x;"
        if rt == "map":
            return f"[1].map(E{k}L{n});"
        if rt == "reenter":
            return f"__reenter(E{k}L{n});"
        if rt == "renew":
            return f"__renew(E{k}L{n});"
        if rt == "evalfn":
            args = ", ".join(str(10 + j) for j in range(argc_of(n)))
            return f"eval('E{k}L{n}({args});');"
        raise vlib.ToolError(f"unknown route {rt}")
    args = ", ".join(str(10 + j) for j in range(argc_of(n)))
    return f"E{k}L{n}({args});"


def action(k, sym):
    ck = sym["ck"]
    if ck == "normal":
        return ""
    if ck == "throw":
        return "throw 7;"
    if ck == "limit":
        return "while (true) {}" if sym["lk"] == "loop" else f"E{k}REC();"
    raise vlib.ToolError(f"no action for {ck}")


def body(k, sym, i):
    inner = call_next(k, sym, i) if i < sym["d"] else action(k, sym)
    if sym["cat"] == i + 1:
        inner = f"try {{ {inner} }} catch (e) {{ print('catch', {i}); }}"
    return f"print('in', {i}); {inner} print('out', {i});"


def render_entry(k, sym):
    """-> (setup source, steps, index of the step that is the entry proper)"""
    ek, ck = sym["ek"], sym["ck"]
    defs = []
    if ck == "reserr":
        if sym["why"] == "notcallable":
            defs.append(f"var E{k}X = {{}};")
        elif sym["why"] == "classcall":
            defs.append(f"var E{k}X = class {{}};")
        else:
            raise vlib.ToolError("reserr/limit cannot be rendered at top level")
        return " ".join(defs), [{"kind": ek, "fn": f"E{k}X", "args": [1]}], 0
    if ck == "preperr":
        step = {"kind": "eval", "src": "let undefined = 1;"}
        if ek == "evalasync":
            step.update(via="async", budget=3)
        return "", [step], 0
    if ck == "limit" and sym["lk"] == "rec":
        # three forms of the runaway recursion, chosen by the entry's position in the history and its depth: the limit is
        # reached at a plain call, right after a generator of this level was resumed, or inside a for-of over a generator
        # (resumptions push frames too; whatever they do at the limit, the entry has to end balanced)
        form = (k + sym["d"]) % 3
        if form == 1:
            defs.append(f"function* E{k}GEN() {{ yield 1; yield 2; }} function E{k}REC() {{ var it = E{k}GEN(); it.next(); E{k}REC(); }}")
        elif form == 2:
            defs.append(f"function* E{k}GEN() {{ yield 1; yield 2; }} function E{k}REC() {{ for (var v of E{k}GEN()) {{ E{k}REC(); }} }}")
        else:
            defs.append(f"function E{k}REC() {{ E{k}REC(); }}")
    for i in range(1, sym["d"] + 1):
        if sym["nat"] == i and sym["rt"] == "getter":
            defs.append(f"var E{k}O{i} = {{ get x() {{ {body(k, sym, i)} }} }};")
        else:
            defs.append(f"function E{k}L{i}(a, b, c) {{ {body(k, sym, i)} }}")
    b0 = body(k, sym, 0)
    if ek in ("eval", "evalasync"):
        step = {"kind": "eval", "src": b0}
        if ek == "evalasync":
            step.update(via="async", budget=3)
        return " ".join(defs), [step], 0
    if ek == "module":
        return " ".join(defs), [{"kind": "module", "src": b0}], 0
    if ek in ("call", "construct"):
        defs.append(f"function E{k}L0(a) {{ {b0} }}")
        return " ".join(defs), [{"kind": ek, "fn": f"E{k}L0", "args": [1]}], 0
    if ek == "jobs":
        defs.append(f"function E{k}L0(a) {{ {b0} }}")
        return " ".join(defs), [{"kind": "eval", "src": f"Promise.resolve(0).then(E{k}L0); 0", "aux": True},
                                {"kind": "jobs"}], 1
    if ek == "gen":
        defs.append(f"function* E{k}G() {{ yield 1; {b0} }}")
        defs.append(f"function E{k}R() {{ var it = E{k}G(); it.next(); return it.next(); }}")
        return " ".join(defs), [{"kind": "call", "fn": f"E{k}R", "args": []}], 0
    raise vlib.ToolError(f"unknown entry kind {ek}")


def expected_completion(rec, cfg):
    sym, c = rec["sym"], rec["c"]
    if c == "return":
        return "value:"
    if c == "throw":
        if sym["ck"] == "reserr":
            return "throw:o:Error:TypeError"
        if sym["ck"] == "preperr":
            return "throw:o:Error:SyntaxError"
        return "throw:n:7"
    if c == "limit":
        if sym["lk"] == "loop":
            return "limit:LoopIteration"
        return "limit:StackSize" if "stack" in cfg and cfg is CFG_B else "limit:Recursion"
    raise vlib.ToolError(f"model completion {c}")


def expected_nested(rec):
    """completions of the nested entries that the recorder can see (made through __reenter/__renew)"""
    sym = rec["sym"]
    if sym["nat"] > 0 and sym["rt"] in ("reenter", "renew"):
        if not rec["nested"]:
            raise vlib.ToolError("model produced no nested entry for a native route")
        k, c = rec["nested"][0]
        return [[k, {"return": "normal", "throw": "throw", "limit": "limit"}[c]]]
    return []


def build_scenario(sid, hist, cfg, only=None):
    """hist: list of model records [{sym,c,out,nested}]. only: indices of entries to keep (reference run)."""
    setups, steps, owner = [], [], []
    for k, rec in enumerate(hist, start=1):
        if only is not None and (k - 1) not in only:
            continue
        s, st, main = render_entry(k, rec["sym"])
        if s:
            setups.append(s)
        for j, x in enumerate(st):
            steps.append(x)
            owner.append((k - 1, j == main))
    all_steps = [{"kind": "eval", "src": " ".join(setups) + " 0"}] + steps
    return {"id": sid, "cfg": cfg, "events": True, "steps": all_steps}, [(-1, False)] + owner


# ------------------------------------------------------------------------------------------ signatures

def site_of(sym):
    ck = sym["ck"]
    if ck == "reserr":
        return "resolve:" + sym["why"]
    if ck == "preperr":
        return "prepare"
    if ck == "normal":
        return "none"
    if ck == "limit":
        return "uncatchable"
    d, cat, nat = sym["d"], sym["cat"], sym["nat"]
    if cat == 0:
        return "uncaught"
    if cat - 1 == d:
        return "same-frame"
    if nat and cat - 1 < nat <= d:
        return "across-native"
    return "ancestor"


def classify(sym, nested):
    """(completion, catch-site class) of the entry in question - the host entry itself, or (nested) the
    entry made by the native re-entry route - as a function of the plan.  The site class is relative
    to the `Context::run` that hands the completion to that entry: the frames of that run are the
    levels from the entry's own EXIT_EARLY frame up to the level where the completion arises."""
    ck, d, cat, nat = sym["ck"], sym["d"], sym["cat"], sym["nat"]
    if ck == "reserr":
        return "throw", "resolve:" + sym["why"]
    if ck == "preperr":
        return "throw", "prepare"
    if ck == "normal":
        return "normal", "none"
    lo = nat if nested else 0
    top = d if (nested or nat == 0) else nat - 1
    if ck == "throw" and cat > 0:
        catcher = cat - 1
        if catcher >= lo:
            return "normal", "caught:" + site_of(sym)      # inside this run, or deeper (a nested run)
    if ck == "limit":
        return "limit", "uncatchable"
    return "throw", ("uncaught@entry-frame" if top == lo else "uncaught@deeper")


def signature(where, sym, what):
    """known-finding key: where the imbalance shows + entry kind + completion kind + catch-site class"""
    if sym["ek"].startswith("extra:"):
        return sig_str({"where": where, "entry": sym["ek"], "step": sym["ck"], "what": what})
    nested = where == "nested-exit"
    comp, site = classify(sym, nested)
    entry = sym["ek"]
    if nested:
        entry = "nested-construct" if sym["rt"] == "renew" else "nested-call"
    elif entry == "jobs" and comp == "throw":
        comp = "normal"                                     # a throwing job rejects its promise; run_jobs returns Ok
    return sig_str({"where": where, "entry": entry, "completion": comp, "site": site, "what": what})


def sig_str(d):
    """signatures are strings (vlib.Check uses them as dictionary keys)"""
    return " ".join(f"{k}={d[k]}" for k in ("where", "entry", "step", "completion", "site", "what") if k in d)


# ------------------------------------------------------------------------------------------ TLC

def enumerate_histories(cfgname, ck, workers=6, simulate=None, depth=None, tseed=None, maxlen=None, alpha=None):
    """Runs the history driver; returns the emitted histories (deduplicated). In exhaustive mode the number of
    emitted histories must be |A| + |A|^2 + ... + |A|^maxlen for the alphabet size |A| = alpha of the config
    (lines printed by concurrent TLC workers can interleave and get lost; then the run is repeated with one
    worker)."""
    for w in ([workers, 1] if simulate is None else [1]):
        seen = {}

        def on(tag, obj):
            if tag == "HIST":
                seen.setdefault(json.dumps([x["sym"] for x in obj], sort_keys=True), obj)

        r = vlib.run_tlc(os.path.join(SPECDIR, "MCHostVmHist.tla"), cfgname, workers=w, timeout=1500,
                         on_tagged=on, simulate=simulate, depth=depth, tseed=tseed)
        vlib.tlc_must_pass(r, "HostVmHist/" + cfgname)
        hists = list(seen.values())
        if simulate is not None:
            break
        n1 = alpha if alpha is not None else sum(1 for h in hists if len(h) == 1)
        want = sum(n1 ** k for k in range(1, maxlen + 1))
        if len(hists) == want:
            break
        vlib.log(f"[C07] {cfgname}: {len(hists)} histories read, {want} expected - repeating with one worker")
    else:
        raise vlib.ToolError(f"{cfgname}: history emission incomplete ({len(hists)} of {want})")
    ck.cov["states"] = ck.cov.get("states", 0) + r["distinct"]
    ck.cov["transitions"] = ck.cov.get("transitions", 0) + r["states"]
    ck.cov.setdefault("checker_cmd", r["cmd"])
    return hists, r


def validate_traces(ck, execs):
    """execs: list of (xid, events). Returns {xid: why} of rejected executions."""
    path = os.path.join(vlib.WORK, f"c07-trace-{os.getpid()}.ndjson")
    n = 0
    with open(path, "w") as f:
        for xid, evs in execs:
            if not evs:
                continue
            # one execution per top-level entry, depths relative to what the entry found
            base_f, base_s, base_p = evs[0]["f"] - 1, evs[0]["s"], evs[0]["p"]
            for e in evs:
                # nested events keep the absolute stack length: inside a generator it is the length of the
                # generator's private stack, unrelated to the entry's base
                f.write(json.dumps({"e": e["e"], "k": e["k"], "n": e["n"], "f": e["f"] - base_f,
                                    "s": e["s"] - base_s if e["n"] == 0 else e["s"],
                                    "p": e["p"] != base_p, "c": e.get("c", ""), "x": xid}) + "\n")
                n += 1
            f.write(json.dumps({"e": "reset", "k": "", "n": 0, "f": 0, "s": 0, "p": False, "c": "", "x": xid}) + "\n")
            n += 1
    if n == 0:
        raise vlib.ToolError("no events recorded")
    rej = {}

    def on(tag, obj):
        if tag == "REJECT":
            rej.setdefault(obj["x"], obj)

    r = vlib.run_tlc(os.path.join(SPECDIR, "HostVmTrace.tla"), "HostVmTrace.cfg", workers=1, timeout=1500,
                     dfs=True, env_extra={"TRACE": path}, on_tagged=on)
    os.unlink(path)
    if not r["ok"]:
        vlib.log(r["raw_tail"])
        raise vlib.ToolError(f"trace validation did not complete: {r['violation']}")
    if r["distinct"] != n + 1:
        raise vlib.ToolError(f"trace validation consumed {r['distinct'] - 1} of {n} events")
    ck.cov["trace_events"] = ck.cov.get("trace_events", 0) + n
    ck.cov["trace_states"] = ck.cov.get("trace_states", 0) + r["distinct"]
    return rej


# ------------------------------------------------------------------------------------------ judging

def split_events(evs):
    """groups the event list of a scenario by top-level entry"""
    groups, cur = [], None
    for e in evs:
        if e["n"] == 0 and e["e"] == "enter":
            cur = [e]
            groups.append(cur)
        elif cur is not None:
            cur.append(e)
    return groups


def nested_pairs(group):
    """[(enter, exit)] of the nested entries of one top-level entry, in exit order"""
    stack, out = [], []
    for e in group[1:]:
        if e["n"] == 0:
            continue
        if e["e"] == "enter":
            stack.append(e)
        elif stack:
            out.append((stack.pop(), e))
    return out


class Judge:
    def __init__(self, ck, binary):
        self.ck, self.binary = ck, binary
        self.execs = []          # (xid, events) for mode B
        self.a_bad = {}          # xid -> set of "where" found by mode A (depth mismatches only)
        self.meta = {}           # xid -> (sym, detail)
        self.failed = 0

    def fail(self, where, sym, what, detail):
        self.failed += 1
        return self.ck.failure(signature(where, sym, what), detail)

    def run(self, scenarios, jobs=6):
        """runs the scenarios on `jobs` harness processes; a chunk whose process dies is re-run through
        vlib.run_lines, which attributes the abort to the scenario that caused it"""
        import subprocess
        from concurrent.futures import ThreadPoolExecutor
        if len(scenarios) < 400:
            return vlib.run_lines(self.binary, scenarios)
        os.makedirs(vlib.WORK, exist_ok=True)
        n = (len(scenarios) + jobs - 1) // jobs
        chunks = [scenarios[i:i + n] for i in range(0, len(scenarios), n)]

        def one(ci):
            inp = os.path.join(vlib.WORK, f"c07-in-{os.getpid()}-{ci}.ndjson")
            with open(inp, "w") as f:
                for sc in chunks[ci]:
                    f.write(json.dumps(sc) + "\n")
            try:
                p = subprocess.run([self.binary, inp], stdout=subprocess.PIPE, stderr=subprocess.PIPE, timeout=1500)
                rc, out = p.returncode, p.stdout
            except subprocess.TimeoutExpired:
                rc, out = -1, b""
            os.unlink(inp)
            res = {}
            for line in out.decode(errors="replace").splitlines():
                if line.startswith("{"):
                    try:
                        r = json.loads(line)
                    except json.JSONDecodeError:
                        continue
                    res[r.get("id")] = r
            return rc, res

        results = {}
        with ThreadPoolExecutor(max_workers=jobs) as ex:
            outs = list(ex.map(one, range(len(chunks))))
        for ci, (rc, res) in enumerate(outs):
            if rc != 0 or len(res) != len(chunks[ci]):
                res = vlib.run_lines(self.binary, chunks[ci])
            results.update(res)
        return results

    def judge(self, sid, hist, cfg, res, owner, scen, ref=None, ref_owner=None):
        """compares one executed history with the model's expectations"""
        ck = self.ck
        if res is None:
            raise vlib.ToolError(f"no result for scenario {sid}")
        if "panic" in res or "abort" in res:
            sym = hist[-1]["sym"]
            self.fail("internal-failure", sym, "panic", {"hist": [h["sym"] for h in hist], "scenario": scen,
                                                         "panic": res.get("panic") or res.get("abort")})
            return
        steps = res["steps"]
        if len(steps) != len(owner):
            raise vlib.ToolError("step count mismatch")
        groups = split_events(res.get("ev", []))
        if len(groups) != len(steps):
            raise vlib.ToolError(f"event groups {len(groups)} != steps {len(steps)}")
        before = res["d0"]
        if before != D0:
            raise vlib.ToolError(f"fresh context does not start balanced: {before}")
        for i, (st, (ei, main)) in enumerate(zip(steps, owner)):
            after = st["d"]
            xid = f"{sid}:{i}"
            self.execs.append((xid, groups[i]))
            sym = hist[ei]["sym"] if ei >= 0 else {"ek": "eval", "ck": "normal", "d": 0, "cat": 0, "nat": 0,
                                                   "rt": "js", "lk": "none", "why": "none"}
            detail = {"hist": [h["sym"] for h in hist], "entry_index": ei, "step": i, "scenario": scen,
                      "expected_depths": before, "actual_depths": after, "completion": st["c"]}
            self.meta[xid] = (sym, detail)
            ck.add("entries_checked")
            if st["c"].startswith("enginepanic"):
                self.a_bad.setdefault(xid, set()).add("internal")
                self.fail("internal-failure", sym, "enginepanic", detail)
            # (1) EntryRestores at the host boundary
            if after != before:
                what = "+".join(n for n, a, b in zip(("frames", "stack", "pending"), after, before) if a != b)
                self.a_bad.setdefault(xid, set()).add("host-exit")
                self.fail("host-exit", sym, what, detail)
            # (2) nested entries seen by the recorder
            pairs = nested_pairs(groups[i])
            for en, ex in pairs:
                ck.add("nested_entries_checked")
                if (en["f"], en["s"], en["p"]) != (ex["f"], ex["s"], ex["p"]):
                    what = "+".join(n for n, a, b in zip(("frames", "stack", "pending"), (ex["f"], ex["s"], ex["p"]),
                                                         (en["f"], en["s"], en["p"])) if a != b)
                    self.a_bad.setdefault(xid, set()).add("nested-exit")
                    self.fail("nested-exit", sym, what, dict(detail, nested_enter=en, nested_exit=ex))
                if ex.get("c") == "internal":
                    self.a_bad.setdefault(xid, set()).add("internal")
                    self.fail("internal-failure", sym, "nested", dict(detail, nested_exit=ex))
            # (3) observations prescribed by the model
            if ei >= 0:
                rec = hist[ei]
                if main:
                    want_c = expected_completion(rec, cfg)
                    want_out = [f"s:{a} n:{b}" for a, b in rec["out"]]
                    want_nested = expected_nested(rec)
                else:
                    want_c, want_out, want_nested = "value:n:0", [], []
                got_nested = [[ex["k"], ex.get("c")] for _, ex in pairs]
                if not st["c"].startswith(want_c) or st["out"] != want_out or got_nested != want_nested:
                    self.fail("observation", sym, "trace", dict(detail, expected={"c": want_c, "out": want_out, "nested": want_nested},
                                                                 actual={"c": st["c"], "out": st["out"], "nested": got_nested}))
                if main and rec["c"] != "return":
                    ck.add("abrupt_entries")
            before = after
        # (4) reusability: the successful entries behave the same on a context that never saw the failed ones
        if ref is not None:
            if "panic" in ref or "abort" in ref:
                self.fail("internal-failure", hist[-1]["sym"], "panic-in-reference", {"scenario": scen})
                return
            got = {}
            for st, (ei, main) in zip(steps, owner):
                got.setdefault(ei, []).append((st["c"], st["out"]))
            want = {}
            for st, (ei, main) in zip(ref["steps"], ref_owner):
                want.setdefault(ei, []).append((st["c"], st["out"]))
            ck.add("reuse_compared")
            for ei in want:
                if ei >= 0 and got.get(ei) != want[ei]:
                    failed_before = [h["sym"] for h in hist[:ei] if h["c"] != "return"]
                    culprit = failed_before[-1] if failed_before else hist[ei]["sym"]
                    self.fail("reuse", culprit, "trace", {"hist": [h["sym"] for h in hist], "entry_index": ei, "scenario": scen,
                                                          "on_reused_context": got.get(ei), "on_fresh_context": want[ei]})

    def mode_b(self):
        """validates everything recorded so far with TLC and cross-checks the verdicts with mode A"""
        ck = self.ck
        execs = self.execs
        cap = 4 * TRACE_CHUNK
        if len(execs) > cap:
            # more recorded executions than the budget allows: the first chunk (the single-entry sweep comes
            # first) is always validated, the rest is sampled by the seed; mode A has judged all of them
            head, rest = execs[:TRACE_CHUNK], execs[TRACE_CHUNK:]
            random.Random(vlib.seed()).shuffle(rest)
            execs = head + rest[:cap - TRACE_CHUNK]
            ck.add("traces_not_sampled", len(self.execs) - len(execs))
            self.execs = execs
        rej = {}
        for i in range(0, len(execs), TRACE_CHUNK):
            rej.update(validate_traces(ck, execs[i:i + TRACE_CHUNK]))
        ck.cov["traces_validated_against_impl"] = ck.cov.get("traces_validated_against_impl", 0) + len(self.execs)
        ck.cov["traces_rejected"] = ck.cov.get("traces_rejected", 0) + len(rej)
        for xid, evs in self.execs:
            a = self.a_bad.get(xid, set())
            r = rej.get(xid)
            if bool(a) != bool(r):
                sym, detail = self.meta[xid]
                raise vlib.ToolError(f"mode A and mode B disagree on {xid}: A={sorted(a)} B={r} entry={sym}")
            if r:
                sym, detail = self.meta[xid]
                where = {"stack": None, "frames": None, "pending": None}.get(r["why"], "trace")
                if where == "trace" and r["why"] != "internal-failure":
                    # nesting / unknown kinds: not a depth mismatch, report on its own
                    self.fail("trace-" + r["why"], sym, r["e"], dict(detail, reject=r))
                else:
                    w = "nested-exit" if r["n"] > 0 else "host-exit"
                    if w not in a and "internal" not in a:
                        raise vlib.ToolError(f"mode B rejected {xid} at {w} but mode A saw {sorted(a)}")
        self.execs, self.a_bad, self.meta = [], {}, {}


# ------------------------------------------------------------------------------------------ extras

def plan(ek, ck, d=0, cat=0, nat=0, rt="js", lk="none", why="none"):
    return {"ek": ek, "ck": ck, "d": d, "cat": cat, "nat": nat, "rt": rt, "lk": lk, "why": why}


# classes of failing entries used for the long-history variant (one representative per class)
LONG_PLANS = [
    plan("eval", "throw", 0), plan("eval", "throw", 2), plan("evalasync", "throw", 1), plan("call", "throw", 0),
    plan("call", "throw", 2), plan("construct", "throw", 1), plan("jobs", "throw", 1), plan("gen", "throw", 1),
    plan("module", "throw", 1), plan("module", "normal", 1),
    plan("eval", "throw", 2, 1), plan("call", "throw", 2, 1, 2, "map"), plan("call", "throw", 2, 0, 2, "reenter"),
    plan("eval", "limit", 0, 0, 0, "js", "loop"), plan("eval", "limit", 1, 1, 0, "js", "rec"),
    plan("call", "limit", 0, 0, 0, "js", "loop"), plan("construct", "limit", 2, 0, 1, "getter", "rec"),
    plan("jobs", "limit", 1, 0, 0, "js", "loop"), plan("gen", "limit", 1, 0, 0, "js", "loop"),
    plan("call", "reserr", why="notcallable"), plan("call", "reserr", why="classcall"),
    plan("construct", "reserr", why="notcallable"), plan("eval", "preperr"), plan("evalasync", "preperr"),
]

FINAL_SYM = plan("call", "throw", 3, 2, 2, "map")       # the program run after the failures: calls, a native
#                                                         re-entry, a throw caught two frames up


def model_record(sym, c, out, nested=None):
    return {"sym": sym, "c": c, "out": out, "nested": nested or []}


FINAL_REC = model_record(FINAL_SYM, "return", [["in", 0], ["in", 1], ["in", 2], ["in", 3], ["catch", 1], ["out", 1], ["out", 0]],
                         [["call", "throw"]])

# directed scenarios outside the TLC alphabet: depth restoration, nesting and completion alphabet only
# (checked by mode A's depth comparison and by the trace spec)
EXTRAS = [
    ("host-calls-native", [("eval", "0"), ("call:print", [1])]),
    ("host-calls-recording-native", [("eval", "function f(a){ return a + 1 } 0"), ("call:__reenter", ["x"])]),
    ("generator-called-by-host", [("eval", "function* G(){ yield 1; } 0"), ("call:G", []), ("construct:G", [])]),
    ("bound-and-proxy", [("eval", "function t(){ throw 1 } function u(){ t() } var B = u.bind(null, 1, 2); var P = new Proxy(u, {}); 0"),
                         ("call:B", [3]), ("call:P", [1]), ("construct:P", [1])]),
    ("class-construct", [("eval", "var A = class { constructor(){ this.x = 1 } }; var D = class extends A { constructor(){ super(); throw 2 } }; "
                                  "var E = class extends A { constructor(){ return 1 } }; 0"),
                         ("construct:A", []), ("construct:D", []), ("construct:E", []), ("call:D", [])]),
    ("recursion-through-native", [("eval", "function r(){ __reenter(r) } function s(){ try { __reenter(s) } catch (e) { print('never') } } 0"),
                                  ("call:r", []), ("eval", "r()"), ("call:s", []), ("eval", "s()")]),
    ("async-await-jobs", [("eval", "async function a(){ await 1; throw 3 } async function b(){ await 1; __reenter(function(){ throw 4 }) } "
                                   "a(); b(); 0"), ("jobs", None), ("eval", "1")]),
    ("json-and-eval-builtins", [("eval", "function t(){ throw 1 } 0"),
                                ("eval", "JSON.parse('[1,2]', function(k, v){ if (k === '1') t(); return v })"),
                                ("eval", "(function(){ return eval('t()') })()"),
                                ("eval", "try { (function(){ return eval('t()') })() } catch (e) { 5 }"),
                                ("eval", "(0, eval)('let undefined = 1')")]),
    ("iterators-and-coercions", [("eval", "function t(){ throw 1 } function it(){ for (var x of { [Symbol.iterator]: function(){ return { next: t } } }) {} } "
                                          "function co(){ return 1 + { valueOf: t } } function sp(){ return [...{ [Symbol.iterator]: t }] } 0"),
                                 ("call:it", []), ("call:co", []), ("call:sp", []), ("eval", "it()"), ("eval", "co()"), ("eval", "sp()")]),
    ("syntax-errors", [("eval", "syntax error here"), ("eval", "let q = 1; let q = 2;"), ("module", "import x from"), ("eval", "1")]),
    ("generator-throw-return", [("eval", "function* G(){ try { yield 1; yield 2 } finally { print('fin') } } "
                                         "function a(){ var g = G(); g.next(); return g.return(5) } "
                                         "function b(){ var g = G(); g.next(); return g.throw(6) } "
                                         "function c(){ var g = G(); g.next(); g.next(); g.next(); return g.next() } 0"),
                                ("call:a", []), ("call:b", []), ("call:c", []), ("eval", "b()")]),
]


# native re-entry sites of the builtins: each expression calls back into JS (t throws, n returns); it is run
# uncaught at script level, uncaught in a function called by the host, and caught in a function called by the host
CALLBACK_EXPRS = [
    "[1, 2].forEach(F)", "[1, 2].map(F)", "[1, 2].filter(F)", "[1, 2].reduce(F)", "[2, 1].sort(F)", "[1].find(F)",
    "[1].some(F)", "[1].every(F)", "[1].flatMap(F)", "Array.from([1], F)", "Array.from({ length: 1 }, F)",
    "'a'.replace('a', F)", "'a'.replace(/a/, F)", "JSON.stringify({ toJSON: F })", "JSON.stringify({ a: 1 }, F)",
    "JSON.parse('[1]', F)", "new Promise(F)", "Reflect.apply(F, null, [])", "Reflect.construct(F, [])",
    "F.call(null)", "F.apply(null, [])", "F.bind(null)()", "new Map([[1, 2]]).forEach(F)", "new Set([1]).forEach(F)",
    "Object.defineProperty({}, 'x', { get: F }).x", "({ set x(v) { F() } }).x = 1", "F`x`", "String({ toString: F })",
    "1 + { valueOf: F }", "[...{ [Symbol.iterator]: F }]", "new Proxy({}, { get: F }).x", "new Proxy(function(){}, { apply: F })()",
    "Object.keys(new Proxy({}, { ownKeys: F }))", "1 instanceof { [Symbol.hasInstance]: F }",
    "new (class extends (function(){ F() }) {})()", "Object.assign({}, { get a() { return F() } })",
    "Array.prototype.concat.call({ get [Symbol.isConcatSpreadable]() { return F() } })", "new F()", "eval('F()')",
    "(function*(){ F(); yield 1 })().next()", "[1].map(function(){ return [2].map(F) })",
]


def callback_extras():
    out = []
    for fname in ("t", "n"):
        setup = "function t(){ throw 1 } function n(){ return [] } "
        steps = [("eval", None)]
        for i, e in enumerate(CALLBACK_EXPRS):
            e = e.replace("F", fname)
            setup += f"function u{i}(){{ return {e} }} function c{i}(){{ try {{ return {e} }} catch (x) {{ return 'c' }} }} "
            steps += [("eval", e, "script: " + e), (f"call:u{i}", [], "function: " + e), (f"call:c{i}", [], "caught: " + e)]
        steps[0] = ("eval", setup + "0")
        out.append(("callbacks-" + ("throwing" if fname == "t" else "returning"), steps))
    return out


def extra_scenario(sid, name, steps, cfg):
    out = []
    for kind, arg in [st[:2] for st in steps]:
        if kind == "eval":
            out.append({"kind": "eval", "src": arg})
        elif kind == "module":
            out.append({"kind": "module", "src": arg})
        elif kind == "jobs":
            out.append({"kind": "jobs"})
        else:
            k, fn = kind.split(":")
            out.append({"kind": k, "fn": fn, "args": arg})
    return {"id": sid, "cfg": cfg, "events": True, "steps": out}


# ------------------------------------------------------------------------------------------ driver

def run(tier, replay=None):
    ck = vlib.Check("C07", tier, "model_checking", replay)
    rng = random.Random(vlib.seed())
    bindir = vlib.build_harness(["hhost"])
    binary = os.path.join(bindir, "hhost")
    thorough = tier == "thorough"

    # ---- model gate: free exploration of the mechanism model
    if thorough:
        # one run with -coverage 1: invariants + "every action of the MC spec was taken"
        import re
        t0 = __import__("time").time()
        raw = tlc_coverage("MCHostVm.tla", "MCHostVm_thorough.cfg")
        m = re.search(r"^(\d+) states generated, (\d+) distinct states found, 0 states left", raw, re.M)
        if "Model checking completed. No error has been found." not in raw or not m:
            vlib.log(raw[-3000:])
            raise vlib.ToolError("model gate failed for HostVm (thorough)")
        g = {"states": int(m.group(1)), "distinct": int(m.group(2)), "wall": __import__("time").time() - t0}
        check_coverage(raw, ck, "gate")
        check_coverage(tlc_coverage("MCHostVmHist.tla", "MCHostVmHist_single.cfg"), ck, "history")
    else:
        g = vlib.run_tlc(os.path.join(SPECDIR, "MCHostVm.tla"), "MCHostVm_quick.cfg", workers=6, timeout=1500)
        vlib.tlc_must_pass(g, "HostVm gate")
    vlib.log(f"[C07] gate: {g['distinct']} states, {g['states']} transitions, {g['wall']:.0f}s")
    ck.cov["gate_states"] = g["distinct"]
    ck.cov["gate_transitions"] = g["states"]

    # ---- mode A: histories enumerated by TLC
    # (config, history length, size of its alphabet in MCHostVmHist.tla)
    cfgs = [("MCHostVmHist_single.cfg", 1, ALPHA_FULL), ("MCHostVmHist_tiny3.cfg", 3, 7)] if not thorough else \
           [("MCHostVmHist_single.cfg", 1, ALPHA_FULL), ("MCHostVmHist_quick.cfg", 3, 23), ("MCHostVmHist_mid.cfg", 2, 68),
            ("MCHostVmHist_tiny.cfg", 5, 7)]
    hists, seen = [], set()
    for c, maxlen, alpha in cfgs:
        hs, r = enumerate_histories(c, ck, maxlen=maxlen, alpha=alpha)
        vlib.log(f"[C07] {c}: {len(hs)} histories, {r['distinct']} states, {r['wall']:.0f}s")
        for h in hs:
            key = json.dumps([x["sym"] for x in h], sort_keys=True)
            if key not in seen:
                seen.add(key)
                hists.append(h)
    # seeded long random histories over the full alphabet
    hs, _ = enumerate_histories("MCHostVmHist_sim.cfg", ck, workers=1, simulate=(60 if thorough else 12), depth=230, tseed=vlib.seed())
    longest = {}
    for h in hs:
        key = json.dumps([x["sym"] for x in h], sort_keys=True)
        longest[key] = h
    keys = sorted(longest)
    for key in keys:
        if not any(o != key and o.startswith(key[:-1] + ",") for o in keys) and key not in seen:
            seen.add(key)
            hists.append(longest[key])
    ck.cov["histories"] = len(hists)
    vlib.log(f"[C07] {len(hists)} distinct histories to replay")
    if len(hists) < 2000:
        raise vlib.ToolError(f"vacuity guard: only {len(hists)} histories enumerated")

    judge = Judge(ck, binary)
    nscen = 0
    BATCH = 8000
    for b0 in range(0, len(hists), BATCH):
        scen, refs, owners, ref_owners, bidx = [], {}, {}, {}, {}
        for i in range(b0, min(b0 + BATCH, len(hists))):
            h = hists[i]
            sc, ow = build_scenario(i, h, CFG_A)
            scen.append(sc)
            owners[i] = ow
            ok_idx = [j for j, x in enumerate(h) if x["c"] == "return"]
            if len(ok_idx) != len(h) and ok_idx:
                rs, row = build_scenario(f"r{i}", h, CFG_A, only=set(ok_idx))
                scen.append(rs)
                refs[i] = f"r{i}"
                ref_owners[i] = row
            # single entries with a recursion that is stopped by the stack-size limit instead (configuration B)
            if len(h) == 1 and h[0]["sym"]["ck"] == "limit" and h[0]["sym"]["lk"] == "rec":
                sc, ow = build_scenario(f"b{i}", h, CFG_B)
                scen.append(sc)
                bidx[i] = (f"b{i}", ow)
        res = judge.run(scen)
        nscen += len(scen)
        bysid = {s["id"]: s for s in scen}
        for i in range(b0, min(b0 + BATCH, len(hists))):
            h = hists[i]
            ref = res.get(refs[i]) if i in refs else None
            judge.judge(i, h, CFG_A, res.get(i), owners[i], bysid[i], ref, ref_owners.get(i))
            if i in (0, 57, 1200):
                ck.sample({"history": [x["sym"] for x in h], "expected": [{"c": x["c"], "out": x["out"]} for x in h],
                           "steps": bysid[i]["steps"][1:], "observed": [(s["c"], s["d"]) for s in (res.get(i) or {}).get("steps", [])][1:]})
            if i in bidx:
                sid, ow = bidx[i]
                judge.judge(sid, h, CFG_B, res.get(sid), ow, bysid[sid])
    scen = range(nscen)
    vlib.log(f"[C07] replayed {len(scen)} scenarios, {ck.cov.get('entries_checked', 0)} entries; validating traces")
    judge.mode_b()
    vlib.log(f"[C07] trace validation: {ck.cov.get('trace_events', 0)} events, {ck.cov.get('traces_rejected', 0)} executions rejected")

    # ---- directed scenarios outside the alphabet (depths, nesting, completion alphabet)
    extras = EXTRAS + callback_extras()
    scen = [extra_scenario(f"x{n}", name, steps, CFG_A) for n, (name, steps) in enumerate(extras)]
    res = judge.run(scen)
    for n, (name, steps) in enumerate(extras):
        judge_extra(judge, f"x{n}", name, scen[n], res.get(f"x{n}"), [st[2] if len(st) > 2 else None for st in steps])
    judge.mode_b()

    # ---- long histories: LONG_N failing entries of one class, then a program under a small stack limit
    plans = LONG_PLANS
    scen = []
    for n, sym in enumerate(plans):
        sc, _ = build_long(f"l{n}", sym, CFG_LONG)
        scen.append(sc)
    rsc, _ = build_long("lref", None, CFG_LONG)
    scen.append(rsc)
    res = judge.run(scen)
    want = res.get("lref")
    if want is None or "steps" not in want or not want["steps"][-1]["c"].startswith("value:"):
        raise vlib.ToolError(f"long-history reference run failed: {want}")
    want_final = (want["steps"][-1]["c"], want["steps"][-1]["out"])
    if want_final[1] != [f"s:{a} n:{b}" for a, b in FINAL_REC["out"]]:
        raise vlib.ToolError(f"long-history reference run prints {want_final}")
    for n, sym in enumerate(plans):
        r = res.get(f"l{n}")
        ck.add("long_histories")
        if r is None or "panic" in r or "abort" in r:
            judge.fail("internal-failure", sym, "panic", {"long": sym, "result": r})
            continue
        got_final = (r["steps"][-1]["c"], r["steps"][-1]["out"])
        if got_final != want_final or r["steps"][-1]["d"] != D0:
            judge.fail("long-reuse", sym, "trace" if got_final != want_final else "stack",
                       {"failing_entry": sym, "times": LONG_N, "cfg": CFG_LONG, "final_program": FINAL_SYM,
                        "on_reused_context": got_final, "on_fresh_context": want_final, "depths": r["steps"][-1]["d"]})

    ck.cov["history_states"] = ck.cov.get("states", 0)
    ck.cov["states"] = ck.cov.get("states", 0) + ck.cov.get("gate_states", 0) + ck.cov.get("trace_states", 0)
    ck.cov["transitions"] = ck.cov.get("transitions", 0) + ck.cov.get("gate_transitions", 0) + ck.cov.get("trace_events", 0)
    ck.cov.update(exhaustive=True,
                  evaluations=ck.cov.get("entries_checked", 0) + ck.cov.get("nested_entries_checked", 0),
                  distinct_nontrivial=ck.cov.get("abrupt_entries", 0),
                  rule="one replay per host-entry history enumerated by TLC (every single entry plan of the full alphabet; all histories "
                       "up to the tier's length over the reduced alphabets; seeded -simulate histories); non-trivial = entries that end "
                       "abruptly from the host's point of view (throw or limit)")
    if ck.cov.get("abrupt_entries", 0) < 500:
        raise vlib.ToolError("vacuity guard: too few abrupt entries replayed")
    if ck.cov.get("nested_entries_checked", 0) < 300:
        raise vlib.ToolError("vacuity guard: too few nested entries observed")
    ck.assumptions += ["depths are read through boa_engine::verif::vm_depths (cfg boa_verif hook), before and after each entry",
                       "nested entries are observable only through the recording natives __reenter/__renew (getter / Array.prototype.map "
                       "re-entries are covered at the host boundary only)",
                       "what the VM does between two recorded events is not recorded: the trace spec constrains the boundaries",
                       "absolute slot counts (registers per frame) are implementation detail and not compared"]
    if os.environ.get("C07_DUMP_FINDINGS"):
        dump_findings(ck)
    return ck.finish()


def build_long(sid, sym, cfg):
    setups, steps = [], []
    if sym is not None:
        s, st, _ = render_entry(1, sym)
        setups.append(s)
        for _ in range(LONG_N):
            steps += st
    s, st, _ = render_entry(2, FINAL_SYM)
    setups.append(s)
    steps += st
    return {"id": sid, "cfg": cfg, "steps": [{"kind": "eval", "src": " ".join(setups) + " 0"}] + steps}, None


def judge_extra(judge, sid, name, scen, res, labels=None):
    ck = judge.ck
    sym = plan("extra:" + name, "mixed")
    if res is None:
        raise vlib.ToolError(f"no result for {sid}")
    if "panic" in res or "abort" in res:
        judge.fail("internal-failure", sym, "panic", {"scenario": scen, "panic": res.get("panic") or res.get("abort")})
        return
    groups = split_events(res.get("ev", []))
    real = [s for s in scen["steps"]]
    before = res["d0"]
    gi = 0
    for i, st in enumerate(res["steps"]):
        ck.add("extra_entries_checked")
        xid = f"{sid}:{i}"
        esym = plan("extra:" + name, labels[i] if labels and labels[i] else f"step{i}")
        detail = {"scenario": scen, "step": i, "expected_depths": before, "actual_depths": st["d"], "completion": st["c"]}
        # a step whose function lookup failed records no events
        if gi < len(groups) and groups[gi][0]["k"] == expected_kind(real[i]):
            judge.execs.append((xid, groups[gi]))
            judge.meta[xid] = (esym, detail)
            pairs = nested_pairs(groups[gi])
            gi += 1
        else:
            pairs = []
        if st["c"].startswith("enginepanic"):
            judge.a_bad.setdefault(xid, set()).add("internal")
            judge.fail("internal-failure", esym, "enginepanic", detail)
        if st["d"] != before:
            what = "+".join(n for n, a, b in zip(("frames", "stack", "pending"), st["d"], before) if a != b)
            judge.a_bad.setdefault(xid, set()).add("host-exit")
            judge.fail("host-exit", esym, what, detail)
        for en, ex in pairs:
            ck.add("nested_entries_checked")
            if (en["f"], en["s"], en["p"]) != (ex["f"], ex["s"], ex["p"]):
                judge.a_bad.setdefault(xid, set()).add("nested-exit")
                judge.fail("nested-exit", esym, "stack", dict(detail, nested_enter=en, nested_exit=ex))
        before = st["d"]


def expected_kind(step):
    if step["kind"] == "eval":
        return "evalasync" if step.get("via") == "async" else "eval"
    return step["kind"]


def tlc_coverage(module, cfg):
    """runs TLC with -coverage 1 and returns its complete output (vlib keeps only the tail)"""
    import subprocess
    libs = [r for r, _, fs in os.walk(vlib.SPEC) if any(f.endswith(".tla") for f in fs)]
    meta = os.path.join(vlib.WORK, f"tlc-cov-{os.getpid()}")
    cmd = ["timeout", "1500", "java", "-Xss1g", "-Xmx8g", "-XX:+UseParallelGC", "-DTLA-Library=" + os.pathsep.join(libs),
           "-cp", vlib.TLA_CP, "tlc2.TLC", "-metadir", meta, "-cleanup", "-noGenerateSpecTE", "-workers", "6",
           "-coverage", "1", "-config", cfg, module]
    env = dict(os.environ)
    env.pop("JAVA_TOOL_OPTIONS", None)
    p = subprocess.run(cmd, cwd=SPECDIR, env=env, stdout=subprocess.PIPE, stderr=subprocess.STDOUT, text=True, errors="replace")
    subprocess.run(["rm", "-rf", meta])
    if p.returncode != 0:
        raise vlib.ToolError(f"TLC coverage run failed on {module}/{cfg} (rc={p.returncode})")
    return "\n".join(l for l in p.stdout.splitlines() if not l.startswith('<<"'))


def check_coverage(raw, ck, what):
    """thorough tier: every action of the MC spec was taken (TLC -coverage output)"""
    import re
    counts = {}
    for m in re.finditer(r"^<(\w+) line \d+, col \d+ to line \d+, col \d+ of module \w+( \([\d ]+\))?>: (\d+):(\d+)", raw, re.M):
        counts[m.group(1) + (m.group(2) or "")] = int(m.group(4))
    if len(counts) < 10:
        raise vlib.ToolError(f"could not read TLC coverage of the {what} model")
    zero = sorted(a for a, n in counts.items() if n == 0)
    ck.cov.setdefault("tlc_coverage", {})[what] = counts
    if zero:
        raise vlib.ToolError(f"actions never taken in the {what} model: {zero}")


def dump_findings(ck):
    out = []
    for sig, path in ck.violations:
        out.append({"property": "C07", "status": "open", "signature": sig})
    p = os.path.join(vlib.WORK, "c07-findings-dump.json")
    with open(p, "w") as f:
        json.dump(out, f, indent=1)
    vlib.log(f"[C07] dumped {len(out)} signatures to {p}")
