#!/bin/sh
# Usage: tools/mkmirror.sh <repo-dir> <mirror-dir>
# Creates a harness build directory whose path dependencies point at <repo-dir> (a scratch worktree of
# /repo) instead of /repo. Use it with VERIF_HARNESS_DIR=<mirror-dir> ./check <ID> ...  (development
# and mutation experiments only; registered checks always build /repo through /verif/harness).
set -e
REPO=$(cd "$1" && pwd); M="$2"
H="$(cd "$(dirname "$0")/.." && pwd)/harness"
mkdir -p "$M/.cargo"
sed "s#\"/repo/#\"$REPO/#g" "$H/Cargo.toml" > "$M/Cargo.toml"
cp "$H/Cargo.lock" "$M/Cargo.lock"
cp "$H/.cargo/config.toml" "$M/.cargo/config.toml"
rm -f "$M/crates"; ln -s "$H/crates" "$M/crates"
echo "mirror ready: VERIF_HARNESS_DIR=$M"
